NOT_BUILT_REASON = "no check registered yet: the TLA+ module and conformance harness for this property are still under construction (DESIGN.md section 10); not claimed until it runs"

ENGINES = [
    {"name": "tlc-trace", "path": "/verif/spec", "serves_properties": [], "kind_free_text":
        "TLC 1.8 evaluating TLA+ check/trace specifications over recorded real-code runs (code -> spec), one verdict tuple per case"},
    {"name": "tlc-replay", "path": "/verif/spec", "serves_properties": [], "kind_free_text":
        "TLC state graphs / enumerated behaviours replayed into the real code with the projected abstract state compared after each step (spec -> code)"},
]

_GLR_NOTE = ("Trusted: TLC, the JSON projection of public parglare objects (harness/real.py, corpus_glr.py), the token lattice computed from the real "
             "recognizers, equal terminal priorities. Bounded: grammar family F(3,3)/F(4,2) sampled with a fixed seed, inputs <= 4 (thorough 5) tokens, "
             "plus seeded random larger grammars; no claim beyond the explored bound.")

CHECKS = {
    "C01": {
        "engine": "tlc-trace", "design_ref": "DESIGN.md 3.1, 3.5, 7 C01",
        "technique": "TLA+ chart reference (CFG.tla) vs recorded GLR forests (GLRCheck.tla) + GSS hook-trace validation against the order-insensitive GLR machine (GSSTrace.tla), TLC",
        "level": "Every real GLRParser.parse outcome of a bounded grammar/input space is judged inside TLA+ against an LR-independent reference: accept iff the "
                 "lattice has a sentence path; every packed alternative and every enumerated tree of small forests is a valid derivation; each recorded GSS "
                 "reduction/shift/accept event is a valid step of the GLR machine over the real table.",
        "note": _GLR_NOTE,
    },
    "C02": {
        "engine": "tlc-trace", "design_ref": "DESIGN.md 3.5, 7 C02",
        "technique": "TLA+ complete-SPPF reference (CFG!RefForest, RefTrees) compared with the recorded forest's packed alternatives and tree sets; frontier-closure diagnosis on hook traces (GSSTrace!Missing), TLC",
        "level": "For every sentence with finitely many derivations in the explored space the reference tree set / packed set computed by TLC must be contained "
                 "in the real forest; losses are localised per frontier on the recorded GSS trace; the known defect D1 is matched by exact witness lists "
                 "(deterministic corpus) or by the TLA+-computed 'node visited twice' signature (random extension).",
        "note": _GLR_NOTE,
    },
    "C03": {
        "engine": "tlc-trace", "design_ref": "DESIGN.md 3.6, 7 C03",
        "technique": "Forest.tla: the recorded forest as a counted DAG (Kleene-iterated counts, tree sets, cyclicity) vs len/solutions/ambiguities/enumerations/IndexError/LoopError replies; ForestAPI.tla call histories (TLC-enumerated and simulated) replayed on real forests and validated by ForestAPITrace.tla; BigForest.tla exact big-integer counts (limb arithmetic) vs replies of real forests with up to 10^20+ trees (BigForestCheck.tla), TLC",
        "level": "len/solutions/ambiguities, every enumerated tree (lazy, non-lazy, repeated, iterated, first), out-of-range replies and LoopError of every real "
                 "forest in the explored space are compared in TLA+ with the tree set the recorded DAG represents and with the reference count.",
        "note": _GLR_NOTE + " Tree sets are materialised up to 60 trees; above that saturating counts and residues modulo four 15-bit primes; on the big forests of stage_big the count is exact (limbs base 1000) and each returned tree is checked to be represented by the recorded DAG.",
    },
    "C04": {
        "engine": "tlc-trace", "design_ref": "DESIGN.md 3.4, 7 C04",
        "technique": "LRCheck.tla: recorded Parser(build_tree=True) outcomes judged against the TLA+ chart reference (CFG.tla) and against the GLR outcome on the same input; table determinism read from the real cells, TLC",
        "level": "For every option combination under which Parser constructs and every input of the explored space: an accepted input is a sentence and the "
                 "returned tree is a valid derivation (TLA+ Derivation); on deterministic unresolved tables: every sentence is accepted, has exactly one "
                 "reference derivation, and GLRParser returns exactly that tree.",
        "note": "Trusted: TLC, tree/table projection, lattice from real recognizers. Bounded: F(3,3), F(4,2) over 3 nonterminals (fixed-seed samples), inputs <= 4 tokens "
                "with layout renderings, seeded random grammars; four (tables, prefer_shifts, prefer_shifts_over_empty) combinations.",
    },
    "C05": {
        "engine": "tlc-trace", "design_ref": "DESIGN.md 3.3, 7 C05",
        "technique": "TLA+ canonical LR(1) reference (LR1.tla) walked in lock-step with every real LALR/SLR table (LRWalk.tla product states), TLC; termination by reference-derived state budget hook; the construction itself as a TLA+ machine (LRBuild.tla) model-checked for every handling order (Bounded, Terminates under weak fairness, Faithful) and bound to the code by trace validation of recorded constructions (LRBuildTrace.tla)",
        "level": "Every real table of the explored grammar space is walked by TLC against the canonical LR(1) automaton: in each product state nothing valid is "
                 "missing, no reduction outside the LALR(1) lookahead / FOLLOW, no spurious shift; per table: construction terminates within 4*|LR(1)|+8 "
                 "states, conflict reports agree with the multi-action cells. Every recorded real LALR construction is, event by event, a behaviour of the specified construction machine "
                 "(same queue order, same merge / merge-other / split decisions, same final kernel lookaheads), which TLC proves bounded, terminating and faithful on small grammars for every handling order.",
        "note": "Trusted: TLC, the table projection (harness/real.table_json), the construction recorder (harness/stage_build.BuildRecorder). Bounded: F(3,3), F(4,2), F(4,3) over 3 nonterminals sampled with fixed seeds, "
                "idiom / epsilon-chain / n-context families, seeded random grammars up to 8 productions; main and LAYOUT start productions; no claim beyond the bound.",
    },
    "C06": {
        "engine": "tlc-trace", "design_ref": "DESIGN.md 3.9 Prec, 7 C06",
        "technique": "Prec.tla: TLC enumerates all trees of each expression, selects the unique PrecCorrect tree (uniqueness checked per case) and compares with recorded Parser / GLRParser / stratified-grammar results; PrecDesign.tla (design level, exhaustive TLC model checking: spec-built LALR table + Resolve.tla is deterministic and precedence-correct for every operator table over K operators) bound to the code by ResolvedWalk.tla (every cell of the real resolved table = Resolve of the unresolved cell)",
        "level": "For every operator table and expression of the explored space the real LR parser (all prefer-shift strategies off) constructs and returns the unique "
                 "precedence-correct tree, GLRParser returns exactly that one tree, malformed expressions are rejected, and marks added to the stratified LALR(1) grammar change nothing. "
                 "Design level: for all operator tables over K = 2, 3 (thorough 4) operators the resolution rule yields a conflict-free table whose LR automaton builds the precedence-correct tree "
                 "of every expression up to 7-9 tokens; every cell of the explored real tables (operator grammars and marked general grammars) equals the rule's result.",
        "note": "Trusted: TLC, the tagging of nested-list results, the table dump (harness/real.table_json). Cells whose outcome depends on item order (a left-associative and a yielding reduction of the shift's priority in one cell; outside C06's scope) are counted, not judged.",
    },
    "C07": {
        "engine": "tlc-trace", "design_ref": "DESIGN.md 3.2, 7 C07",
        "technique": "Lexer.tla: exhaustive TLC model check Impl = Doc (LexerMC, 1.5M configurations) + conformance of real candidate order, finish flags and scan outcome of realised terminal configurations (LexCheck.tla), TLC",
        "level": "Design level: for every configuration of 3 terminals the implementation-shaped scanner equals the documented choice (exhaustive, with a negative control). "
                 "Code level: every realised configuration's real table order, finish flags and outcome (token / DisambiguationError tokens / SyntaxError / GLR forks) "
                 "must equal the TLA+ reference for both parsers and both lexical_disambiguation values.",
        "note": "Trusted: TLC, projection of terminal attributes and recognizer match lengths, Python string order for names. One scanning position per configuration (state 0, input 'aaa aaa').",
    },
    "C08": {
        "engine": "tlc-trace", "design_ref": "DESIGN.md 7 C08, Appendix A (Check/LeafPath)",
        "technique": "LRCheck.tla PosCheck/Lossless/LeafTokens on recorded LR trees and GLR trees; GLRCheck.tla position clauses (PosNodeAlts/PosChain/PosLeaves) on every alternative of recorded forests, TLC",
        "level": "Every tree built by the LR parser and sampled trees of every GLR forest, and every packed alternative of every recorded forest, are checked in TLA+: "
                 "integer in-bounds spans, leaf value = input slice, siblings ordered/disjoint, children inside parents, leaves form the lattice path, "
                 "layout_content + value concatenation reproduces the input.",
        "note": "Trusted: TLC, tree projection (real.dump_tree reads start/end/layout_content/value through the public node API). ws-based layout; positions seen by actions are "
                "covered by C09, LAYOUT-rule layout by C14.",
    },
    "C10": {
        "engine": "tlc-trace", "design_ref": "DESIGN.md 7 C10, Appendix A (Earley)",
        "technique": "Earley.tla longest-viable-prefix / expected-terminal reference + LineCol in TLA+ vs recorded SyntaxError objects of LR and GLR runs (LRCheck!ErrClauses), TLC",
        "level": "Every non-sentence of the explored space must raise parglare.SyntaxError (GLR; LR on exact tables) at the lattice node after the longest viable "
                 "prefix, with matching line/column, end-of-file wording iff at the end, renderable text, and for GLR symbols_expected = the terminals that "
                 "can legally follow; LR with resolved conflicts: SyntaxError or DisambiguationError only.",
        "note": "Trusted: TLC, exception projection (harness/real.exc_json). Terminals without lexical overlap (single token path); STOP ignored in symbols_expected; "
                "list (non-string) inputs are exercised by C07's custom-recognizer cases.",
    },
    "C17": {
        "engine": "tlc-trace", "design_ref": "DESIGN.md 7 C17",
        "technique": "CFG!RootsPrefix reference (all sentence prefixes ending at a lattice node) vs recorded consume_input=False forests, TLC",
        "level": "For GLRParser(consume_input=False) every outcome in the explored space is compared with the union of the reference forests of all sentence "
                 "prefixes: SyntaxError iff no prefix is a sentence, every tree valid, every derivation present exactly once.",
        "note": _GLR_NOTE + " The LR half of C17 (Parser with consume_input=False) is decided by the LR corpus once built.",
    },
    "C09": {
        "engine": "tlc-trace", "design_ref": "DESIGN.md 3.9 Actions, 7 C09",
        "technique": "Actions.tla symbolic evaluation (uninterpreted user actions as terms, documented defaults and built-ins) of the recorded derivation tree vs the recorded results of the three action routes (ActCheck.tla), TLC",
        "level": "For every explored grammar, action table and LR-accepted sentence the result of actions during parsing, of build_tree + call_actions and of GLR single tree + "
                 "call_actions must each equal Actions!Eval of that route's tree (argument order, alternative index, named matches, ?= truthiness, default nesting, collect/optional/"
                 "separator built-ins, spans handed to actions; stateful counting actions: the order of the calls is the order of the LR reductions), and the routes must agree with spans stripped; "
                 "half of the cases use a Grammar object that served another, total action table before.",
        "note": "Trusted: TLC, the tagging of Python results (harness/stage_act.tagval), the recording actions. Bounded: small grammars with <= 3 nonterminals, sentences <= 9 tokens.",
    },
    "C11": {
        "engine": "tlc-trace", "design_ref": "DESIGN.md 3.4 (Recover*, RecoveryProgress), 7 C11",
        "technique": "RecoveryCheck.tla final-state clauses (termination, only SyntaxError, spans ordered/disjoint/in bounds, trees are derivations over input tokens, every character accounted for, sentences untouched) + LRTrace.tla validation of recorded H-lr events against the LR machine over the real table with RecoveryProgress and the custom-strategy contract (the parser continues from exactly the position and lookahead the strategy left; no rescan while a lookahead is pending), TLC",
        "level": "For every explored corrupted input, parser kind and strategy the run terminates, raises nothing but SyntaxError, reports ordered disjoint in-bounds spans, returns trees that are derivations "
                 "over real input tokens, accounts for every non-layout character (LR, default), leaves sentences untouched; every LR run's shift/reduce/error/recover events are steps of the LR automaton "
                 "and every default recovery strictly advances.",
        "note": "Trusted: TLC, the event recorder (harness/stage_rec.LRRecorder), tree/errors projection. Known finding D15: GLR default recovery resuming where several expected terminals match raises AttributeError.",
    },
    "C12": {
        "engine": "tlc-replay", "design_ref": "DESIGN.md 3.7, 4.2, 7 C12",
        "technique": "Cache.tla machine model-checked exhaustively (design invariants + reference Transparent), its labelled state graph replayed transition by transition on a real grammar directory, real traces validated against the machine and judged by CacheTrace.tla; the same for the compiled error hints (.pgec): HintCache.tla / HintCacheTrace.tla with two negative-control configurations; Persist.tla for the save/load round trip, TLC",
        "level": "Every transition of the cache protocol machine (construct under three option sets, crash while saving, pglr compile, edits and touches of root and imported grammar) is "
                 "executed on the real code and the projected directory state and reply compared after every step; every completed construction is judged against the no-cache table "
                 "(and, in the hint-cache machine, against the hints compiled with no cache); "
                 "round trip: actions, gotos, finish flags, conflicts, dynamic marks equal after load and the second save byte-identical.",
        "note": "Trusted: TLC, the directory projection (harness/stage_cache.replay). Bounded: one replay grammar with one imported file, histories up to depth 3 (thorough 4). "
                "Known findings D8 / D41: the options a table was written under (the kind of parser that compiled the hints) are not part of the cache decision.",
    },
    "C13": {
        "engine": "tlc-trace", "design_ref": "DESIGN.md 3.9 Desugar, 7 C13",
        "technique": "Desugar.tla (documented expansion) + CFG.tla sentencehood over the expansion + Actions.tla documented built-in meaning vs recorded productions, acceptance and per-tree results of sugared grammars (SugarCheck.tla), TLC",
        "level": "For every explored sugared grammar: real productions equal the documented expansion (group/greedy-free grammars), the accepted language equals that of the expansion "
                 "on all explored inputs, every forest tree's result equals the documented meaning (lists, empty list, None, separators dropped, groups as anonymous rules), greedy variants "
                 "keep the language, stay within the non-greedy results and, on pattern grammars, yield the single maximal tree.",
        "note": "Trusted: TLC, result tagging. Known findings: greedy repetition is possessive (language shrinks when the follower needs the same token); greedy lost when the same base "
                "symbol is also used non-greedy (shared helper rule). Imported grammars with sugar are covered by C20's corpus only incidentally.",
    },
    "C14": {
        "engine": "tlc-trace", "design_ref": "DESIGN.md 3.9 Layout, 7 C14",
        "technique": "Layout.tla: outcomes of one token sequence under many layout fillings must be one abstract value (result, or error class at the same token via the token-start map); ws-parameter parser vs equivalent LAYOUT-rule parser compared on full trees (positions, layout_content) and error positions, TLC",
        "level": "For every explored grammar and token sequence, every rendered layout variant (ws characters; line and nested block comments for LAYOUT grammars) gives the same LR and GLR "
                 "outcome; for ws-only variants the ws parameter (default and custom sets) and the equivalent LAYOUT rule give identical trees, positions, layout_content and error positions.",
        "note": "Trusted: TLC, the renderer's token-start map, tree projection. Bounded: single-character terminals, sequences <= 6 tokens, 6-12 variants each. Reuse of one parser object across inputs is C15's subject.",
    },
    "C15": {
        "engine": "tlc-replay", "design_ref": "DESIGN.md 3.8, 4.2, 7 C15",
        "technique": "Lifecycle.tla machine: TLC enumerates all call histories up to the bound and simulates longer random ones; each replayed on real Grammar/parser objects; LifecycleTrace.tla validates the projected grammar state after every step and evaluates HistoryIndependent (reply = fresh parser's reply), TLC",
        "level": "For every history of the explored space (builds of several parser kinds on one Grammar object, failing builds, parses that succeed, fail, recover, raise inside an action or a recognizer) every "
                 "parse reply equals the reply of a freshly built parser, every later build succeeds, and the grammar's augmented production is `main` after every step.",
        "note": "Trusted: TLC, the reply/grammar projection (harness/stage_life). Bounded: one grammar in two variants, histories <= 3 exhaustively (thorough 4), simulated depth 6-8.",
    },
    "C16": {
        "engine": "tlc-trace", "design_ref": "DESIGN.md 7 C16, 9",
        "technique": "fresh interpreters under several PYTHONHASHSEED values record table digests, conflict reports and forest index orders; DetCheck.tla requires all observations of a grammar to be one value, TLC",
        "level": "For every explored grammar the serialised table (sorted keys and object order), the conflict reports and the index order of ambiguous forests are identical across six "
                 "(thorough ten) string-hash seeds and across repeated construction in one process.",
        "note": "Trusted: TLC, the digest recorder (harness/det_worker.py). The TLA+ part is an equality judgement; the model-level confluence proof of DESIGN 7 C16 is not built. "
                "Cannot exclude hash dependence in unexplored code paths.",
    },
    "C18": {
        "engine": "tlc-trace", "design_ref": "DESIGN.md 3.4, 3.5 (FilterCall), 7 C18",
        "technique": "FilterCheck.tla: recorded filter call logs vs marks and returned trees (FilterInitOnce, FilterOnlyMarked, AcceptedTaken, RejectedNotTaken, AcceptAll = NoFilter, RejectP = NoFilter minus p); Prec.tla for precedence-encoding filters, TLC",
        "level": "For every explored operator grammar, mark subset, parser kind, policy and expression the recorded protocol is checked in TLA+: one all-None initial call, "
                 "only marked decisions asked, every marked decision present in a returned tree was asked with its production and sub-result spans and accepted, nothing "
                 "rejected is taken, accept-all equals no filter, reject-p equals the no-filter forest minus trees using p, a precedence-encoding filter yields the precedence-correct tree.",
        "note": "Trusted: TLC, the recording filter (harness/stage_filter.Recorder), tree projection. Bounded: up to 3 operators, expressions <= 9 tokens, GLR forests up to 30 trees.",
    },
    "C19": {
        "engine": "tlc-trace", "design_ref": "DESIGN.md 3.9 StrTerm, 7 C19",
        "technique": "StrTerm.tla computes literal and whole-word matching on code units itself; StrCheck.tla compares it with the real recognizers of the inline and the declared form at every position of every probe input, build outcomes and keyword classification, TLC",
        "level": "For every explored text, KEYWORD rule and ignore_case value both forms must build, classify the text as keyword iff KEYWORD fully matches it, and match exactly where the TLA+ "
                 "reference says (literal text; keywords only when not adjacent to a word character), identically for inline and declared form, and the sentence text + '!!' must parse.",
        "note": "Trusted: TLC, re.fullmatch for keyword classification. Known findings (D11): inline texts containing '.', newline/tab, or equal to a rule/reserved name do not build; keywords with a non-word first or "
                "last character use \\b which is not the stated adjacency rule. Token choice between keyword and regex terminals is covered by C07 (kw kind).",
    },
    "C20": {
        "engine": "tlc-trace", "design_ref": "DESIGN.md 3.9 Imports, 7 C20",
        "technique": "Imports.tla reference (first-visit prefixes, FQNs, alias following, overrides, each file once) + CFG.tla sentencehood over the flattened productions + Actions.tla vs the loaded grammar's productions, acceptance and results, and the modular parser vs the real parser of the single-file grammar written from the same productions (ImportCheck.tla), TLC",
        "level": "For every generated file set the productions and terminals of the grammar loaded by Grammar.from_file equal the flattened grammar computed in TLA+ (helper names aside), "
                 "acceptance of every explored token sequence equals sentencehood in the flattened grammar (a disagreement is excused only when the single-file parser built from TLC-proved-equal productions answers the same: the GLR findings D1/D2 belong to C01/C02) and equals the single-file parser's answer, and every forest tree's result equals the documented meaning.",
        "note": "Trusted: TLC, projection of productions/terminals by fqn. Bounded: <= 4 files, 10 graph shapes, inputs <= 8 tokens. Known finding D12: an override combined with more than one import path to the overridden file.",
    },
}
