#!/usr/bin/env python3
"""Regenerate DESIGN.md section 12.1 (catch matrix) from seeded/*/meta.json (maintenance tool)."""
import glob
import json
import os

ROOT = os.path.dirname(os.path.dirname(os.path.abspath(__file__)))
rows = []
for d in sorted(glob.glob(os.path.join(ROOT, "seeded", "*", "meta.json"))):
    m = json.load(open(d))
    fc = m.get("files_changed")
    files = ",".join(os.path.basename(f) for f in fc) if isinstance(fc, list) else str(fc)
    summ = m["summary"].replace("|", "\\|").replace("\n", " ")
    short = summ.split(". ")[0][:230]
    note = m.get("not_caught_by_own_property_check") or ""
    hist = m.get("history", "")
    last = ("own check does not report it: " + note) if note else (hist if hist and hist != "caught on the first run" else "")
    rows.append((m["id"], files, short, ", ".join(m["caught_by"]), last.replace("|", "\\|")[:420], m.get("round", 1)))
idx = json.load(open(os.path.join(ROOT, "seeded", "INDEX.json")))
kept = len(rows)
own = sum(1 for r in rows if r[0][:3] in r[3])
r2 = [r for r in rows if r[5] in (2, 3, 4, 5)]
missed_first = sum(1 for r in r2 if r[4].startswith(("first run: missed", "not a violation", "own check")))
out = ["### 12.1 Seeded changes actually tried (%d kept; written by sub-agents that saw only the property text and a scratch worktree)" % kept, "",
       "Each change compiles, passes the repository's 264 tests (cold caches) and comes with a demonstration that fails with it and passes",
       "without it (`seeded/<id>/`: patch.diff, demo.py, meta.json; `tools/confirm_mut.sh`, `tools/mutrun.sh`).  All %d are reported by at least" % kept,
       "one check; %d by the check of the property they were written against.  The last column records what had to be strengthened: in the" % own,
       "second to fifth round %d of %d changes slipped through their own check at first -- almost every time because the deterministic corpus" % (missed_first, len(r2)),
       "lacked the grammar shape, option combination or input class, not because a clause was missing or wrong (exceptions: the `strat` event of",
       "`LRTrace`, the exact big-integer arithmetic of `BigForest`, the constant falsy actions of `Actions`, the hint text in the lifecycle reply;",
       "in round 5 two misses were the machinery's own: a known finding's output signature absorbed C08-i, and the crash of C12 was injected by",
       "replacing the function under test).",
       "The families of §0.2a are the result.", "",
       "| id | file | change | reported by | note |", "|---|---|---|---|---|"]
for r in rows:
    out.append("| %s | %s | %s | %s | %s |" % r[:5])
out.append("")
out.append("Dropped: " + "; ".join("%s (%s)" % (i["id"], i["reason"][:160]) for i in idx if not i["kept"]) + ".")
txt = "\n".join(out) + "\n"
p = os.path.join(ROOT, "DESIGN.md")
s = open(p).read()
marker = "---------------------------------------------------------------------------------------------------\n\n## Appendix A."
a = s.index("### 12.1 Seeded changes actually tried")
b = s.index(marker)
s = s[:a] + txt + "\n" + s[b:]
open(p, "w").write(s)
print(kept, "rows;", own, "by own check;", missed_first, "of", len(r2), "missed first in rounds 2-3")
