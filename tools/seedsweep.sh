#!/bin/sh
# usage: tools/seedsweep.sh <tier> <seed> [<seed>...]   -- runs every registered check under each VERIF_SEED; one summary line per check.
# Purpose: a check must stay quiet on the unchanged tree whatever the seed (only the `rand` part of each corpus depends on it).
tier=$1; shift
cd "$(dirname "$0")/.."
for s in "$@"; do
  for id in C01 C02 C03 C17 C04 C08 C10 C05 C06 C07 C09 C11 C12 C13 C14 C15 C16 C18 C19 C20; do
    out=$(VERIF_SEED=$s ./check $id --tier $tier 2>&1); rc=$?
    echo "seed=$s $id rc=$rc $(echo "$out" | grep -c '^VIOLATION') violations; $(echo "$out" | grep -E "^$id (ok|FAIL)|^MACHINERY" | cut -c1-200)"
    echo "$out" | grep '^VIOLATION' | head -3
  done
done
