#!/bin/sh
# usage: tools/try_mutation.sh <dir with patch.diff> <ID> [<ID>...]   -- applies, runs checks, always reverts
d=$1; shift
cd /repo || exit 2
if [ -n "$(git status --porcelain --untracked-files=no)" ]; then echo "/repo not clean"; exit 2; fi
if ! git apply "$d/patch.diff" 2>/dev/null; then
  if ! patch -p1 -s --no-backup-if-mismatch < "$d/patch.diff"; then echo "PATCH DOES NOT APPLY"; git checkout -- .; exit 3; fi
fi
for id in "$@"; do
  (cd /verif && timeout 3000 ./check "$id" --tier ${TIER:-quick} 2>/dev/null | grep -v "^KNOWN-FINDING" | tail -${LINES_OUT:-6}; )
done
cd /repo && git checkout -- . && git status --porcelain --untracked-files=no
