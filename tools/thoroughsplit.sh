#!/bin/sh
# usage: tools/thoroughsplit.sh   -- the thorough tier of every check in two concurrent sequences sharing the stage cache (maintenance)
cd "$(dirname "$0")/.."
run() { for id in "$@"; do out=$(./check $id --tier thorough 2>&1); rc=$?; echo "$id rc=$rc $(echo "$out" | grep -c '^VIOLATION') violations; $(echo "$out" | grep -E "^$id (ok|FAIL)|^MACHINERY" | cut -c1-220)"; echo "$out" | grep '^VIOLATION' | head -3; done; }
run C04 C10 C05 C06 C07 C09 C11 C12 C13 C14 C15 C16 C18 C19 C20 &
run C01 C02 C03 C17 C08 &
wait
