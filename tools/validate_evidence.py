#!/usr/bin/env python3-vt
import glob, json, jsonschema, sys
sch = json.load(open("/root/.vp/EVIDENCE.schema.json"))
ok = True
for f in sorted(glob.glob("/verif/evidence/*.json")):
    try:
        jsonschema.validate(json.load(open(f)), sch); print("valid", f)
    except Exception as e:
        ok = False; print("INVALID", f, str(e)[:300])
sys.exit(0 if ok else 1)
