#!/venv/bin/python
"""Maintenance tool (never run by a check): regenerate the explicit witness lists of the known findings D1/D2 for the
deterministic part of the GLR corpus.  A failing case is listed only if the TLA+-computed signature of the finding matches;
anything else is printed and NOT listed (it would be a new violation)."""
import os
import sys

os.environ.setdefault("PYTHONHASHSEED", "0")
ROOT = os.path.dirname(os.path.dirname(os.path.abspath(__file__)))
sys.path.insert(0, ROOT)
from harness import stage_glr  # noqa: E402
from harness.checklib import witness_key  # noqa: E402

D1 = {"C02:missing-alternative", "C02:missing-tree", "C02:fewer-trees-than-reference"}
D2 = {"C03:duplicate-alternative", "C03:len", "C03:ambiguities", "C03:enumeration-bijection"}
tier = sys.argv[1] if len(sys.argv) > 1 else "quick"
r = stage_glr.get(tier, 0)
files = {"C01-D1": [], "C02-D1": [], "C03-D2": [], "C17-D1": [], "C17-D2": []}
bad = []
for c in r["cases"]:
    if c["origin"] != "det":
        continue
    ld1 = c.get("variant") == "prefix-ld1"   # losses under this configuration are finding D26, matched by its configuration fact (C17-KF3)
    diag = set(c["diag"])
    for cl in c["clauses"]:
        if ld1 and (cl == "C01:rejects-sentence" or cl in D1):
            continue
        if cl == "C01:rejects-sentence":
            # D1 at its worst: every derivation of the sentence needs a path that visits a GSS node twice
            ok = "loss:node-twice" in diag and "loss:other" not in diag
            (files["C01-D1" if c["consume"] else "C17-D1"].append(witness_key(c["name"], cl)) if ok else bad.append((cl, c["name"], c["diag"])))
        elif cl in D1:
            ok = "loss:node-twice" in diag and "loss:other" not in diag
            if c["flags"]["trees"] < 1:
                continue
            (files["C02-D1" if c["consume"] else "C17-D1"].append(witness_key(c["name"], cl)) if ok else bad.append((cl, c["name"], c["diag"])))
        elif cl in D2:
            ok = "dup:revisit" in diag and "dup:other" not in diag
            if ok:
                files["C03-D2"].append(witness_key(c["name"], cl))
                if not c["consume"] and cl in ("C03:duplicate-alternative", "C03:len"):
                    files["C17-D2"].append(witness_key(c["name"], cl))
            else:
                bad.append((cl, c["name"], c["diag"]))
suffix = "" if tier == "quick" else "-" + tier
for k, v in files.items():
    with open(os.path.join(ROOT, "known", k + suffix + ".txt"), "w") as f:
        f.write("".join(x + "\n" for x in sorted(set(v))))
    print(k + suffix, len(set(v)))
for b in bad[:20]:
    print("NOT LISTED (signature does not match):", b)
