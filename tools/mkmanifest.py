#!/usr/bin/env python3-vt
"""Regenerate MANIFEST.json from the registry of built checks (keeps it schema-valid at all times)."""
import json
import os
import subprocess
import sys

ROOT = os.path.dirname(os.path.dirname(os.path.abspath(__file__)))
sys.path.insert(0, ROOT)
from tools.manifest_data import CHECKS, ENGINES, NOT_BUILT_REASON  # noqa: E402

props = [json.loads(l) for l in open(os.path.join(ROOT, "properties.jsonl"))]
hooks_commits = subprocess.run(["git", "-C", "/repo", "log", "--format=%h %s", "--grep=env-guarded", "-i"],
                               stdout=subprocess.PIPE, text=True).stdout.strip().splitlines()
m = {
    "version": 1,
    "setup_cmd": "./setup.sh",
    "hooks": {
        "guard": "PARGLARE_VERIF",
        "enable": "PARGLARE_VERIF=1 in the environment before parglare is imported (harness/real.py sets it in every worker process and "
                  "imports parglare from /repo's working tree); PARGLARE_VERIF_MAX_STATES=<n> additionally bounds LR table construction",
        "baseline_off_cmd": "cd /repo && env -u PARGLARE_VERIF -u PARGLARE_VERIF_MAX_STATES /venv/bin/python -m pytest -ra -q -p no:cacheprovider --timeout=900 --continue-on-collection-errors",
        "source_commits": [l.split()[0] for l in hooks_commits],
        "add_only": True,
    },
    "engines": ENGINES,
    "checks": [],
    "not_applicable": [],
    "notes": "Model-based verification with an explicit TLA+ specification suite (spec/*.tla). Every verdict is a TLA+ value computed by TLC; "
             "Python records real-code runs, replays spec behaviours and manages processes. See DESIGN.md.",
}
for p in props:
    pid = p["id"]
    c = CHECKS.get(pid)
    if c is None:
        m["not_applicable"].append({"property_id": pid, "reason": NOT_BUILT_REASON})
        continue
    m["checks"].append({
        "property_id": pid,
        "quick_cmd": "./check %s --tier quick" % pid,
        "thorough_cmd": "./check %s --tier thorough" % pid,
        "evidence_file": "/verif/evidence/%s.json" % pid,
        "replay_cmd_template": "./check %s --replay {path}" % pid,
        "engine": c["engine"],
        "level_claimed": {"category": "model_checking", "text": c["level"], "design_ref": c["design_ref"]},
        "level_note": c["note"],
        "technique": c["technique"],
    })
json.dump(m, open(os.path.join(ROOT, "MANIFEST.json"), "w"), indent=1)
try:
    import jsonschema
except ImportError:
    jsonschema = None

if jsonschema:
    jsonschema.validate(m, json.load(open("/root/.vp/MANIFEST.schema.json")))
print("MANIFEST.json: %d checks, %d not claimed" % (len(m["checks"]), len(m["not_applicable"])))
