#!/bin/sh
# usage: tools/confirm_mut.sh <mutation dir> <worktree>
# Confirms a seeded change on /repo's HEAD: demo passes without it, fails with it, the repository's test-suite passes with it (cold caches).
d=$1; wt=$2; id=$(basename $d)
cd "$wt" || exit 2
git checkout -q --detach "$(git -C /repo rev-parse HEAD)" 2>/dev/null; git checkout -q -- . ; git clean -fdxq >/dev/null 2>&1
PYTHONPATH=$wt /venv/bin/python "$d/demo.py" >/tmp/confirm-$id-clean.out 2>&1; rc_clean=$?
if ! git apply "$d/patch.diff" 2>/dev/null; then
  if ! patch -p1 -s --no-backup-if-mismatch < "$d/patch.diff" >/dev/null 2>&1; then echo "$id: PATCH DOES NOT APPLY to HEAD"; git checkout -q -- .; exit 3; fi
fi
PYTHONPATH=$wt /venv/bin/python "$d/demo.py" >/tmp/confirm-$id-mut.out 2>&1; rc_mut=$?
tests=$(PYTHONPATH=$wt /venv/bin/python -m pytest -q -p no:cacheprovider --timeout=900 tests/func --deselect tests/func/pglr 2>&1 | tail -1)
git checkout -q -- . ; git clean -fdxq >/dev/null 2>&1
echo "$id: demo_clean_rc=$rc_clean demo_mut_rc=$rc_mut tests: $tests"
