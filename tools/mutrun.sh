#!/bin/sh
# usage: tools/mutrun.sh <mutation dir> <worktree> <ID> [<ID>...]
# Applies the mutation's patch in a scratch worktree of /repo (reset to /repo's HEAD first), runs the named checks against it
# (VERIF_REPO), prints one summary line per check, and leaves the worktree clean.  /repo itself is never touched.
d=$1; wt=$2; shift 2
cd "$wt" || exit 2
git checkout -q --detach "$(git -C /repo rev-parse HEAD)" 2>/dev/null; git checkout -q -- . ; git clean -fdq -- parglare
if ! git apply "$d/patch.diff" 2>/dev/null; then
  if ! patch -p1 -s --no-backup-if-mismatch < "$d/patch.diff" >/dev/null 2>&1; then echo "$(basename $d): PATCH DOES NOT APPLY"; git checkout -q -- .; exit 3; fi
fi
for id in "$@"; do
  out=$(cd /verif && VERIF_REPO="$wt" timeout 3000 ./check "$id" --tier ${TIER:-quick} 2>/dev/null)
  rc=$?
  nv=$(echo "$out" | grep -c "^VIOLATION")
  first=$(echo "$out" | grep "^VIOLATION" | head -1 | sed 's/.*# //' | cut -c1-150)
  mf=$(echo "$out" | grep "^MACHINERY" | head -1 | cut -c1-200)
  echo "$(basename $d) vs $id: rc=$rc violations=$nv $first $mf"
done
git checkout -q -- . ; git clean -fdq -- parglare
