#!/bin/sh
# setup_cmd: offline; parses every specification module with SANY and checks the toolchain is present.
set -e
cd "$(dirname "$0")"
test -x /venv/bin/python
/venv/bin/python - <<'PY'
import glob, os, sys
sys.path.insert(0, os.getcwd())
from harness import tlcrun
bad = [m for m in sorted(glob.glob("spec/*.tla")) if not tlcrun.sany(os.path.abspath(m))]
if bad:
    print("SANY failed for", bad); sys.exit(1)
print("setup ok:", len(glob.glob("spec/*.tla")), "modules parse")
PY
