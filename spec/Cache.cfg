SPECIFICATION Spec
CONSTANTS Files = {"root", "imp", "leaf"}
  Opts = {"lr", "glr", "slr"}
  Unresolved = {"glr", "cli", "clips"}
  LRKinds = {"lr", "slr"}
  MaxSteps = 4
INVARIANT NeverStale
INVARIANT NeverFailsOnIncompleteFile
INVARIANT CacheNeverOlderWhenUsed
CHECK_DEADLOCK FALSE
