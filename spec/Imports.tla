------------------------------ MODULE Imports ------------------------------
(***************************************************************************)
(* Reference semantics of a grammar split over imported files (DESIGN 3.9   *)
(* Imports, 7 C20; docs/grammar_modularization.md).                         *)
(*                                                                         *)
(* F : file name -> [imports |-> <<[alias, target]>>,                       *)
(*                   rules   |-> <<[name |-> <<parts>>, alts |-> <<<<item>>>>]>>, *)
(*                   terms   |-> <<[name, text]>>]                          *)
(* item = [kind |-> "str", text]                    an inline string        *)
(*      | [kind |-> "ref", parts |-> <<m1,..,mk,N>>, mult, sep]  a          *)
(*        (qualified) reference, mult in {"", "+", "*", "?"}, sep = <<>> or *)
(*        the (qualified) reference to the separator of a + / * repetition  *)
(* A symbol is a pair (file, name).  The reference m1.….mk.N written in     *)
(* file f denotes (Follow(f, <<m1..mk>>), N), Follow walking the aliases.   *)
(* Each reachable file contributes its rules ONCE.  Prefix(f) is the alias  *)
(* path of the FIRST visit of f in a depth-first traversal in import order  *)
(* (a file is registered before its imports are loaded, which also ends     *)
(* cycles); FQN(f, N) = Prefix(f).N.  A rule whose name is qualified        *)
(* REPLACES the productions of the rule it names, for every user.  Inline   *)
(* strings are terminals named by their text (global); declared terminals   *)
(* are named by FQN.  Flatten = all productions under FQNs.                 *)
(***************************************************************************)
EXTENDS Naturals, Sequences, FiniteSets, TLC

RECURSIVE Visit(_, _, _, _)
RECURSIVE VisitImports(_, _, _, _, _)
Visit(F, f, path, seen) == IF f \in DOMAIN seen THEN seen ELSE VisitImports(F, f, path, 1, seen @@ (f :> path))
VisitImports(F, f, path, i, seen) ==
  IF i > Len(F[f].imports) THEN seen
  ELSE VisitImports(F, f, path, i + 1, Visit(F, F[f].imports[i].target, Append(path, F[f].imports[i].alias), seen))
\* reachable files with their prefix (alias path of the first visit)
Prefixes(F, root) == Visit(F, root, <<>>, <<>>)

RECURSIVE Join(_)
Join(parts) == IF Len(parts) = 0 THEN "" ELSE IF Len(parts) = 1 THEN parts[1] ELSE parts[1] \o "." \o Join(Tail(parts))
Front(s) == SubSeq(s, 1, Len(s) - 1)
Last(s) == s[Len(s)]
ImportOf(F, f, alias) == CHOOSE i \in DOMAIN F[f].imports : F[f].imports[i].alias = alias
RECURSIVE Follow(_, _, _)
Follow(F, f, mods) == IF mods = <<>> THEN f ELSE Follow(F, F[f].imports[ImportOf(F, f, mods[1])].target, Tail(mods))
FQN(P, f, n) == Join(P[f] \o <<n>>)

MultSuffix(m) == CASE m = "+" -> "_1" [] m = "*" -> "_0" [] m = "?" -> "_opt" [] OTHER -> ""
BaseOf(F, P, f, it) == FQN(P, Follow(F, f, Front(it.parts)), Last(it.parts))
\* the separator of a repetition is a symbol like any other: resolved in the file the repetition is written in; a helper rule belongs to
\* (base symbol, multiplicity, SEPARATOR SYMBOL) -- two uses with different separators are different rules whatever the separators are called
HasSep(it) == it.kind = "ref" /\ it.mult \in {"+", "*"} /\ it.sep # <<>>
SepOf(F, P, f, it) == FQN(P, Follow(F, f, Front(it.sep)), Last(it.sep))
SepSuffix(F, P, f, it) == IF HasSep(it) THEN "_" \o SepOf(F, P, f, it) ELSE ""
ItemName(F, P, f, it) == IF it.kind = "str" THEN it.text ELSE BaseOf(F, P, f, it) \o MultSuffix(it.mult) \o SepSuffix(F, P, f, it)
HelperProds(F, P, f, it) ==
  IF it.kind = "str" \/ it.mult = "" THEN {}
  ELSE LET b == BaseOf(F, P, f, it)  ss == SepSuffix(F, P, f, it)  one == b \o "_1" \o ss
           plus == { [lhs |-> one, rhs |-> IF HasSep(it) THEN <<one, SepOf(F, P, f, it), b>> ELSE <<one, b>>], [lhs |-> one, rhs |-> <<b>>] }
       IN CASE it.mult = "+" -> plus
            [] it.mult = "*" -> plus \cup { [lhs |-> b \o "_0" \o ss, rhs |-> <<one>>], [lhs |-> b \o "_0" \o ss, rhs |-> <<>>] }
            [] OTHER -> { [lhs |-> b \o "_opt", rhs |-> <<b>>], [lhs |-> b \o "_opt", rhs |-> <<>>] }
\* the class of finding D32: two repetitions over the same base symbol whose separators have the same LOCAL name but are different symbols
ItemsOf(F, f) == UNION { UNION { { F[f].rules[i].alts[a][k] : k \in DOMAIN F[f].rules[i].alts[a] } : a \in DOMAIN F[f].rules[i].alts } : i \in DOMAIN F[f].rules }
SeparatorNameShared(F, P) ==
  \E f1 \in DOMAIN P, f2 \in DOMAIN P : \E i1 \in { x \in ItemsOf(F, f1) : HasSep(x) }, i2 \in { x \in ItemsOf(F, f2) : HasSep(x) } :
     BaseOf(F, P, f1, i1) = BaseOf(F, P, f2, i2) /\ Last(i1.sep) = Last(i2.sep) /\ SepOf(F, P, f1, i1) # SepOf(F, P, f2, i2)

IsOverride(r) == Len(r.name) > 1
OverrideTarget(F, h, r) == <<Follow(F, h, Front(r.name)), Last(r.name)>>
Overridden(F, P, g, n) == \E h \in DOMAIN P : \E i \in DOMAIN F[h].rules : IsOverride(F[h].rules[i]) /\ OverrideTarget(F, h, F[h].rules[i]) = <<g, n>>
RuleProds(F, P, f, r) ==
  LET lhs == IF IsOverride(r) THEN FQN(P, OverrideTarget(F, f, r)[1], OverrideTarget(F, f, r)[2]) ELSE FQN(P, f, r.name[1])
  IN { [lhs |-> lhs, rhs |-> [ k \in DOMAIN r.alts[a] |-> ItemName(F, P, f, r.alts[a][k]) ]] : a \in DOMAIN r.alts }
     \cup UNION { UNION { HelperProds(F, P, f, r.alts[a][k]) : k \in DOMAIN r.alts[a] } : a \in DOMAIN r.alts }
FlattenAll(F, root) ==
  LET P == Prefixes(F, root) IN
  UNION { UNION { IF ~IsOverride(F[f].rules[i]) /\ Overridden(F, P, f, F[f].rules[i].name[1]) THEN {} ELSE RuleProds(F, P, f, F[f].rules[i]) :
                  i \in DOMAIN F[f].rules } : f \in DOMAIN P }
\* What the loaded grammar contains: every rule written in the ROOT file, and of the imported files the rules that are
\* (transitively) referenced -- an imported rule nobody refers to does not become part of the grammar (observed on the
\* code, not stated by the documentation; it does not affect the language).
RECURSIVE CloseNames(_, _)
CloseNames(all, names) ==
  LET more == names \cup UNION { { p.rhs[k] : k \in DOMAIN p.rhs } : p \in { q \in all : q.lhs \in names } }
  IN IF more = names THEN names ELSE CloseNames(all, more)
RootNames(F, root) ==
  LET P == Prefixes(F, root) IN
  { IF IsOverride(F[root].rules[i]) THEN FQN(P, OverrideTarget(F, root, F[root].rules[i])[1], OverrideTarget(F, root, F[root].rules[i])[2])
    ELSE F[root].rules[i].name[1] : i \in DOMAIN F[root].rules }
Flatten(F, root) == LET all == FlattenAll(F, root)  names == CloseNames(all, RootNames(F, root)) IN { p \in all : p.lhs \in names }
UsedNames(F, root) == LET fl == Flatten(F, root) IN UNION { { p.rhs[k] : k \in DOMAIN p.rhs } : p \in fl }
StartName(F, root) == F[root].rules[1].name[1]
\* terminal name -> text: inline strings (named by text) and declared terminals (named by FQN)
StrsOf(F, f) == UNION { UNION { { F[f].rules[i].alts[a][k].text : k \in { kk \in DOMAIN F[f].rules[i].alts[a] : F[f].rules[i].alts[a][kk].kind = "str" } } :
                                a \in DOMAIN F[f].rules[i].alts } : i \in DOMAIN F[f].rules }
TermTable(F, root) ==
  LET P == Prefixes(F, root)
      inl == UNION { StrsOf(F, f) : f \in DOMAIN P }
      decl == UNION { { <<FQN(P, f, F[f].terms[i].name), F[f].terms[i].text>> : i \in DOMAIN F[f].terms } : f \in DOMAIN P }
  IN { <<t, t>> : t \in inl } \cup decl
=============================================================================
