SPECIFICATION Spec
CONSTANTS NT = 3
  Priors = {5, 10, 15}
  MaxLen = 2
INVARIANT Equiv
CHECK_DEADLOCK FALSE
