SPECIFICATION Spec
CONSTANTS Calls = {"len", "ambiguities", "first", "iter"}
  Indexed = {"lazy", "nonlazy"}
  Indices = {"0", "last", "len", "mid"}
  Policies = {"keep-first", "keep-last", "drop-last"}
  MaxSteps = 3
INVARIANT Emit
CHECK_DEADLOCK FALSE
