SPECIFICATION Spec
CONSTANTS Calls = {"len", "solutions", "ambiguities", "first", "iter", "iter_nonlazy", "tostr"}
  Indexed = {"lazy", "nonlazy"}
  Indices = {"0", "1", "mid", "last", "len", "len+1", "big"}
  Policies = {"keep-first", "keep-last", "drop-last"}
  MaxSteps = 6
INVARIANT Emit
CHECK_DEADLOCK FALSE
