------------------------------- MODULE CFG -------------------------------
(***************************************************************************)
(* Reference semantics of a context-free grammar over a TOKEN LATTICE.     *)
(*                                                                         *)
(* A grammar is a sequence P of productions [lhs |-> name, rhs |-> <<names>>]*)
(* (EMPTY removed; P[1] is the augmented production S' -> Start STOP, which *)
(* the reference ignores except for reading Start).  A lattice L describes  *)
(* ONE input after layout skipping and tokenisation:                        *)
(*   L.nodes  set of normalised character positions (p = Skip[p])           *)
(*   L.edges  set of <<T, p, q>>: terminal T matches at p, the next token    *)
(*            may start at q = Skip[p + length]                             *)
(*   L.s0     Skip[0],  L.n  = length of the input                          *)
(* A plain token string is the linear special case.  Everything here is a   *)
(* constant-level least fixpoint: this module has no variables and no       *)
(* knowledge of LR automata or of the GSS, which is what makes it an        *)
(* independent oracle for the parser machines (DESIGN 3.1).                 *)
(*                                                                         *)
(* TLC memoises neither operators nor recursive functions, so all DAG/chart *)
(* quantities are Kleene iterations over whole vectors (DESIGN 3.6).        *)
(***************************************************************************)
EXTENDS Naturals, Sequences, FiniteSets

NTs(P)      == { P[i].lhs : i \in DOMAIN P }
UserProds(P) == { i \in DOMAIN P : i > 1 }
StartOf(P)  == P[1].rhs[1]
ProdsOf(P, A) == { i \in UserProds(P) : P[i].lhs = A }

\* ---------------------------------------------------------------- nullable / FIRST / FOLLOW
RECURSIVE NullFix(_, _)
NullFix(P, S) ==
  LET S2 == S \cup { P[i].lhs : i \in { j \in UserProds(P) : \A m \in DOMAIN P[j].rhs : P[j].rhs[m] \in S } }
  IN IF S2 = S THEN S ELSE NullFix(P, S2)
Nullable(P) == NullFix(P, {})

SeqNullable(P, N, s) == \A m \in DOMAIN s : s[m] \in N

\* first terminals of a sequence of symbols, F : NT -> set of terminals, N = nullable set
FirstOfSeq(P, N, F, s) ==
  UNION { IF s[m] \in DOMAIN F THEN F[s[m]] ELSE {s[m]} :
          m \in { mm \in DOMAIN s : \A q \in 1..(mm-1) : s[q] \in N } }
RECURSIVE FirstFix(_, _, _)
FirstFix(P, N, F) ==
  LET F2 == [ A \in DOMAIN F |-> F[A] \cup UNION { FirstOfSeq(P, N, F, P[i].rhs) : i \in { j \in DOMAIN P : P[j].lhs = A } } ]
  IN IF F2 = F THEN F ELSE FirstFix(P, N, F2)
\* never contains EMPTY: nullability is a separate set (cf. finding D5)
First(P) == FirstFix(P, Nullable(P), [ A \in NTs(P) |-> {} ])

RECURSIVE FollowFix(_, _, _, _)
FollowFix(P, N, F, W) ==
  LET W2 == [ A \in DOMAIN W |->
               W[A] \cup UNION { UNION { LET rhs == P[i].rhs  beta == SubSeq(rhs, m+1, Len(rhs)) IN
                                          FirstOfSeq(P, N, F, beta)
                                          \cup (IF SeqNullable(P, N, beta) THEN W[P[i].lhs] ELSE {}) :
                                        m \in { mm \in DOMAIN P[i].rhs : P[i].rhs[mm] = A } } :
                                i \in DOMAIN P } ]
  IN IF W2 = W THEN W ELSE FollowFix(P, N, F, W2)
Follow(P) == FollowFix(P, Nullable(P), First(P), [ A \in NTs(P) |-> {} ])

\* ---------------------------------------------------------------- chart over a lattice
\* all ways to split rhs[m..] starting at pos over the span set S: sequences of positions
RECURSIVE SplitsFrom(_, _, _, _, _)
SplitsFrom(S, nodes, rhs, m, pos) ==
  IF m > Len(rhs) THEN { <<pos>> }
  ELSE UNION { { <<pos>> \o s : s \in SplitsFrom(S, nodes, rhs, m+1, j) } :
               j \in { jj \in nodes : jj >= pos /\ <<rhs[m], pos, jj>> \in S } }

\* packed alternatives <<prodIndex, <<p0, ..., pk>>>> constructible from span set S
PackedOf(P, nodes, S) ==
  UNION { UNION { { <<pi, sp>> : sp \in SplitsFrom(S, nodes, P[pi].rhs, 1, i) } : i \in nodes } :
          pi \in UserProds(P) }
SpanOf(P, pk) == <<P[pk[1]].lhs, pk[2][1], pk[2][Len(pk[2])]>>

RECURSIVE FixSpans(_, _, _)
FixSpans(P, nodes, S) ==
  LET S2 == S \cup { SpanOf(P, pk) : pk \in PackedOf(P, nodes, S) }
  IN IF S2 = S THEN S ELSE FixSpans(P, nodes, S2)

\* every <<X, p, q>> such that X derives the tokens of some lattice path p -> q
Spans(P, L) == FixSpans(P, L.nodes, L.edges)

KidSpans(P, pk) == { <<P[pk[1]].rhs[m], pk[2][m], pk[2][m+1]>> : m \in DOMAIN P[pk[1]].rhs }

RECURSIVE ReachSpans(_, _, _, _)
ReachSpans(P, AllPk, fr, seen) ==
  IF fr = {} THEN seen
  ELSE LET newPk == { pk \in AllPk : SpanOf(P, pk) \in fr }
           kids  == UNION { KidSpans(P, pk) : pk \in newPk }
           seen2 == seen \cup fr
       IN ReachSpans(P, AllPk, kids \ seen2, seen2)

\* The complete SPPF for the root spans `roots` (a set of <<Start, s0, q>>):
\*   [spans |-> reachable spans, packed |-> reachable packed alternatives]
RefForest(P, L, roots) ==
  LET S     == Spans(P, L)
      AllPk == PackedOf(P, L.nodes, S)
      R     == ReachSpans(P, AllPk, roots \cap S, {})
  IN [ spans |-> R, packed |-> { pk \in AllPk : SpanOf(P, pk) \in R }, all |-> S ]

RootsConsume(P, L) == { <<StartOf(P), L.s0, L.n>> }
RootsPrefix(P, L)  == { <<StartOf(P), L.s0, q>> : q \in L.nodes }

\* ---------------------------------------------------------------- counting derivation trees
Cap == 1000000
CapMin(a) == IF a < Cap THEN a ELSE Cap

SatMul(a, b, cap) == IF a = 0 \/ b = 0 THEN 0 ELSE IF a > cap \div b THEN cap ELSE a * b
RECURSIVE MulSpans(_, _, _, _, _)
MulSpans(f, ks, i, m, cap) ==      \* product over the kid spans sequence ks (tokens count 1)
  IF i > Len(ks) THEN 1
  ELSE LET v == IF ks[i] \in DOMAIN f THEN f[ks[i]] ELSE 1
           rest == MulSpans(f, ks, i+1, m, cap)
       IN IF m = 0 THEN SatMul(v, rest, cap) ELSE (v * rest) % m

KidSeq(P, pk) == [ m \in DOMAIN P[pk[1]].rhs |-> <<P[pk[1]].rhs[m], pk[2][m], pk[2][m+1]>> ]

RECURSIVE SumSet(_, _, _, _)
SumSet(S, g(_), m, cap) ==          \* sum of g(x) over the finite set S, saturating or modular
  IF S = {} THEN 0
  ELSE LET x == CHOOSE y \in S : TRUE
           r == g(x) + SumSet(S \ {x}, g, m, cap)
       IN IF m = 0 THEN (IF r < cap THEN r ELSE cap) ELSE r % m

\* one Kleene step of the tree-count vector over the nonterminal spans of a reference forest
CountStep(P, RF, f, m) ==
  [ sp \in DOMAIN f |->
      LET alts == { pk \in RF.packed : SpanOf(P, pk) = sp }
          G(pk) == MulSpans(f, KidSeq(P, pk), 1, m, Cap)
      IN SumSet(alts, G, m, Cap) ]

RECURSIVE CountIter(_, _, _, _, _)
CountIter(P, RF, f, m, k) ==
  LET f2 == CountStep(P, RF, f, m)
  IN IF f2 = f THEN [cnt |-> f, stable |-> TRUE]
     ELSE IF k = 0 THEN [cnt |-> f2, stable |-> FALSE]
     ELSE CountIter(P, RF, f2, m, k-1)

NTSpans(P, RF) == { sp \in RF.spans : sp[1] \in NTs(P) }
\* a reachable span that derives itself: infinitely many derivation trees
RECURSIVE CloseSpanReach(_)
CloseSpanReach(R) == LET R2 == [ sp \in DOMAIN R |-> R[sp] \cup UNION { R[k] : k \in R[sp] \cap DOMAIN R } ]
                     IN IF R2 = R THEN R ELSE CloseSpanReach(R2)
RefInfinite(P, RF) ==
  LET D == NTSpans(P, RF)
      R == CloseSpanReach([ sp \in D |-> UNION { KidSpans(P, pk) \cap D : pk \in { q \in RF.packed : SpanOf(P, q) = sp } } ])
  IN \E sp \in D : sp \in R[sp]
\* saturating counts; meaningful when ~RefInfinite
RefCounts(P, RF) ==
  LET D == NTSpans(P, RF) IN CountIter(P, RF, [ sp \in D |-> 0 ], 0, Cardinality(D) + 1)
\* residues modulo a 15-bit prime (only meaningful when RefCounts is stable)
RefCountsMod(P, RF, m) ==
  LET D == NTSpans(P, RF) IN CountIter(P, RF, [ sp \in D |-> 0 ], m, Cardinality(D) + 1)

\* ---------------------------------------------------------------- the derivation trees themselves
\* trees are nested tuples <<"T", t, p, q>> / <<"N", prodIndex, <<kids>>>> over normalised positions;
\* only to be used when the reference forest is acyclic and has few trees
TreesOfSpan(f, sp) == IF sp \in DOMAIN f THEN f[sp] ELSE { <<"T", sp[1], sp[2], sp[3]>> }
RECURSIVE SpanSeqProduct(_, _, _)
SpanSeqProduct(f, ks, i) ==
  IF i > Len(ks) THEN { <<>> }
  ELSE LET rest == SpanSeqProduct(f, ks, i+1) IN { <<t>> \o r : t \in TreesOfSpan(f, ks[i]), r \in rest }
RefTreesStep(P, RF, f) ==
  [ sp \in DOMAIN f |->
      UNION { { <<"N", pk[1], ks>> : ks \in SpanSeqProduct(f, KidSeq(P, pk), 1) } :
              pk \in { q \in RF.packed : SpanOf(P, q) = sp } } ]
RECURSIVE RefTreesIter(_, _, _, _)
RefTreesIter(P, RF, f, k) == LET f2 == RefTreesStep(P, RF, f) IN IF f2 = f \/ k = 0 THEN f2 ELSE RefTreesIter(P, RF, f2, k-1)
RefTrees(P, RF) == LET D == NTSpans(P, RF) IN RefTreesIter(P, RF, [ sp \in D |-> {} ], Cardinality(D) + 1)
RefTreesOfRoots(P, RF, roots) == LET T == RefTrees(P, RF) IN UNION { T[sp] : sp \in roots \cap DOMAIN T }

SumOverRoots(P, RF, roots, r) == \* r = result of RefCounts/RefCountsMod ; total over the root spans present
  LET G(sp) == r.cnt[sp] IN SumSet(roots \cap DOMAIN r.cnt, G, 0, Cap)
=============================================================================
