---------------------------- MODULE RecoveryCheck ----------------------------
(***************************************************************************)
(* C11: final-state clauses of error recovery (code -> spec).  One case =   *)
(* one input handed to a parser with error_recovery on (default strategy or *)
(* a custom strategy of the harness) next to the same parser without        *)
(* recovery.  Recorded: outcome, parser.errors spans, the tree(s).          *)
(***************************************************************************)
EXTENDS Naturals, Sequences, FiniteSets, TLC, Json, IOUtils
Cases == JsonDeserialize(IOEnv.CASES_FILE)
VARIABLES cid, phase
C == Cases[cid]
P == C.prods
N == C.n
In == C.input
WS == { C.ws[i] : i \in DOMAIN C.ws }
MLen(t, p) == C.match[t][p+1]
Terms == DOMAIN C.match
InR(x) == x \in 0..N
IsT(n) == n.k = "T"
SymOf(n) == IF IsT(n) THEN n.t ELSE P[n.p+1].lhs
RECURSIVE Leaves(_)
RECURSIVE LeavesOfSeq(_, _)
LeavesOfSeq(cs, i) == IF i > Len(cs) THEN <<>> ELSE Leaves(cs[i]) \o LeavesOfSeq(cs, i+1)
Leaves(n) == IF IsT(n) THEN <<n>> ELSE LeavesOfSeq(n.c, 1)
RECURSIVE Struct(_)
RECURSIVE StructSeq(_, _)
StructSeq(cs, i) == IF i > Len(cs) THEN TRUE ELSE Struct(cs[i]) /\ StructSeq(cs, i+1)
Struct(n) == IF IsT(n) THEN n.t \in Terms
             ELSE /\ (n.p + 1) \in 2..Len(P) /\ Len(n.c) = Len(P[n.p+1].rhs)
                  /\ \A i \in DOMAIN n.c : SymOf(n.c[i]) = P[n.p+1].rhs[i]
                  /\ StructSeq(n.c, 1)
\* leaves are tokens of the input in input order (injected tokens of custom strategies have zero length and are exempt)
Real(lf) == lf.e > lf.s
LeavesOK(t) ==
  LET ls == Leaves(t)  rs == SelectSeq(ls, Real) IN
  /\ \A i \in DOMAIN rs : InR(rs[i].s) /\ InR(rs[i].e) /\ MLen(rs[i].t, rs[i].s) = rs[i].e - rs[i].s
  /\ \A i \in 1..(Len(rs)-1) : rs[i].e <= rs[i+1].s
TreeOK(t) == Struct(t) /\ SymOf(t) = P[1].rhs[1] /\ LeavesOK(t)
Errs == C.rec.errors
SpansOK == /\ \A i \in DOMAIN Errs : InR(Errs[i][1]) /\ InR(Errs[i][2]) /\ Errs[i][1] <= Errs[i][2]
           /\ \A i \in 1..(Len(Errs)-1) : Errs[i][2] <= Errs[i+1][1]
\* LR, default strategy: every non-layout character lies in exactly one leaf or exactly one reported span
Covered(p, t) == Cardinality({ i \in DOMAIN Leaves(t) : Leaves(t)[i].s <= p /\ p < Leaves(t)[i].e })
                 + Cardinality({ i \in DOMAIN Errs : Errs[i][1] <= p /\ p < Errs[i][2] })
Accounted(t) == \A p \in 0..(N-1) : In[p+1] \notin WS => Covered(p, t) = 1
Clauses ==
  LET r == C.rec  plain == C.plain IN
      (IF r.kind = "timeout" THEN {"C11:does-not-terminate"} ELSE {})
 \cup (IF r.kind = "exc" /\ r.cls # "SyntaxError" THEN {"C11:raises-other-than-syntaxerror"} ELSE {})
 \cup (IF r.kind \in {"ok", "exc"} /\ ~SpansOK THEN {"C11:error-spans-not-ordered-disjoint-in-bounds"} ELSE {})
 \cup (IF r.kind = "ok" /\ \E i \in DOMAIN r.trees : ~TreeOK(r.trees[i]) THEN {"C11:returned-tree-not-a-derivation-over-input-tokens"} ELSE {})
 \cup (IF r.kind = "ok" /\ C.parser = "lr" /\ C.strategy = "default" /\ Len(r.trees) = 1 /\ TreeOK(r.trees[1]) /\ SpansOK /\ ~Accounted(r.trees[1])
       THEN {"C11:character-neither-in-a-leaf-nor-in-exactly-one-span"} ELSE {})
 \cup (IF plain.kind = "ok" /\ (r.kind # "ok" \/ Len(Errs) # 0) THEN {"C11:error-recorded-on-a-sentence"} ELSE {})
 \cup (IF plain.kind = "ok" /\ r.kind = "ok" /\ r.shape # plain.shape THEN {"C11:result-on-a-sentence-differs-from-no-recovery"} ELSE {})
 \cup (IF plain.kind # "ok" /\ r.kind = "ok" /\ Len(Errs) = 0 THEN {"C11:result-without-recorded-error-on-a-non-sentence"} ELSE {})
Init == cid \in DOMAIN Cases /\ phase = 0
Next == phase = 0 /\ phase' = 1 /\ UNCHANGED cid
Spec == Init /\ [][Next]_<<cid, phase>>
Report == phase = 1 => PrintT(<<"VERDICT", C.cix, Clauses, Len(Errs)>>)
=============================================================================
