----------------------------- MODULE GSSTrace -----------------------------
(***************************************************************************)
(* Trace validation of recorded GSS events (hooks H-glr-*, DESIGN 4.1)      *)
(* against the ORDER-INSENSITIVE GLR machine of DESIGN 3.5: every recorded  *)
(* reduction must be a valid AddAlt (a REDUCE action of the head's state on *)
(* its lookahead, along an existing path of links, to goto(root, lhs)),     *)
(* every shift a valid shift of the head's lookahead, every accept an       *)
(* ACCEPT action.  The spec is total: an event the machine does not allow   *)
(* sets `verdict` to the name of the failing clause and stops the case.     *)
(*                                                                         *)
(* Besides the verdict the spec computes DIAGNOSES used for the known-      *)
(* finding signatures D1/D2 (DESIGN 5, 6):                                  *)
(*   loss:node-twice / loss:other  what the closure of a frontier lacks     *)
(*   dup:revisit / dup:other       how a repeated alternative was produced  *)
(*                                                                         *)
(* Node identity (learned from validating recorded traces, Appendix B):     *)
(* <<normalised position, LR state, lookahead symbol>>; a shifted head has  *)
(* lookahead "-" and is forked per lookahead at Scan, the forks sharing its *)
(* links; in the role of a ROOT a node is <<position, state>> only.         *)
(***************************************************************************)
EXTENDS Naturals, Sequences, FiniteSets, TLC, Json, IOUtils

Cases == JsonDeserialize(IOEnv.CASES_FILE)
VARIABLES cid, l, links, heads, inerr, verdict, diag, nred
vars == <<cid, l, links, heads, inerr, verdict, diag, nred>>
C == Cases[cid]
Trace == C.trace
Prod(p) == C.prods[p+1]
State(s) == C.tbl[s+1]
Skip(p) == IF p \in 0..C.n THEN C.skip[p+1] ELSE p
N(h) == <<Skip(h.pos), h.st, h.la>>
Sh(n) == <<n[1], n[2], "-">>
R(n) == <<n[1], n[2]>>
ActsOn(s, sym) == IF sym \in DOMAIN State(s).actions THEN State(s).actions[sym] ELSE <<>>
ReducesOf(s, sym) == { ActsOn(s, sym)[i].p : i \in { j \in DOMAIN ActsOn(s, sym) : ActsOn(s, sym)[j].a = "R" } }
LinkIds == DOMAIN links
LinksFrom(n) == { i \in LinkIds : links[i].head = n \/ links[i].head = Sh(n) }
RECURSIVE Paths(_, _)
Paths(n, k) == IF k = 0 THEN { <<>> }
               ELSE UNION { { p \o <<i>> : p \in Paths(links[i].root, k-1) } : i \in LinksFrom(n) }
PathRoot(n, path) == IF path = <<>> THEN n ELSE links[path[1]].root
Target(h, p, path) == <<h[1], State(PathRoot(h, path)[2]).gotos[Prod(p).lhs], h[3]>>
ev == Trace[l]
IsEvent(e) == l <= Len(Trace) /\ Trace[l].e = e
Step == l' = l + 1 /\ UNCHANGED cid

ReduceClause(e) ==
  LET by == N(e.by)  root == N(e.root)  nh == N(e.nh)  p == Prod(e.p)  k == Len(e.kids) IN
  IF k # Len(p.rhs) THEN "red:arity"
  ELSE IF e.p \notin ReducesOf(e.by.st, e.by.la) THEN "red:no-such-action"
  ELSE IF \E i \in 1..k : e.kids[i] \notin LinkIds THEN "red:unknown-link"
  ELSE IF k = 0 /\ root # by THEN "red:empty-root"
  ELSE IF k > 0 /\ ~(links[e.kids[k]].head \in {by, Sh(by)}) THEN "red:path-start"
  ELSE IF k > 0 /\ \E i \in 1..(k-1) : R(links[e.kids[i]].head) # R(links[e.kids[i+1]].root) THEN "red:path-broken"
  ELSE IF k > 0 /\ R(links[e.kids[1]].root) # R(root) THEN "red:path-root"
  ELSE IF \E i \in 1..k : links[e.kids[i]].sym # p.rhs[i] THEN "red:path-symbols"
  ELSE IF p.lhs \notin DOMAIN State(e.root.st).gotos THEN "red:no-goto"
  ELSE IF nh # <<by[1], State(e.root.st).gotos[p.lhs], by[3]>> THEN "red:target"
  ELSE "ok"

Scan == IsEvent("scan") /\ Step
        /\ heads' = { N(ev.heads[i]) : i \in DOMAIN ev.heads }
        /\ UNCHANGED <<links, inerr, verdict, diag, nred>>

SameAlt(i, p, kids) == \E a \in DOMAIN links[i].alts : links[i].alts[a].prod = p /\ links[i].alts[a].kids = kids
SameAltRev(i, p, kids) == \E a \in DOMAIN links[i].alts : links[i].alts[a].prod = p /\ links[i].alts[a].kids = kids /\ links[i].alts[a].rev

Red == IsEvent("red") /\ Step /\ nred' = nred + 1
  /\ LET alt == [prod |-> ev.p, kids |-> ev.kids, rev |-> ev.rev]
         cl == ReduceClause(ev) IN
     IF cl # "ok" THEN verdict' = cl /\ UNCHANGED <<links, heads, inerr, diag>>
     ELSE /\ heads' = IF ev.err THEN heads ELSE heads \cup {N(ev.nh)}
          /\ UNCHANGED inerr
          /\ IF ev.link \in LinkIds
             THEN /\ links' = [links EXCEPT ![ev.link].alts = Append(@, alt)]
                  /\ verdict' = IF ~ev.err /\ (ev.created \/ links[ev.link].head # N(ev.nh) \/ R(links[ev.link].root) # R(N(ev.root)))
                                THEN "red:bad-merge" ELSE verdict
                  /\ diag' = IF SameAlt(ev.link, ev.p, ev.kids)
                             THEN (IF ev.rev \/ SameAltRev(ev.link, ev.p, ev.kids)
                                   THEN diag \cup {"dup:revisit"} ELSE diag \cup {"dup:other"})
                             ELSE diag
             ELSE /\ links' = (ev.link :> [head |-> N(ev.nh), root |-> N(ev.root), sym |-> Prod(ev.p).lhs, alts |-> <<alt>>]) @@ links
                  /\ verdict' = IF ev.err THEN verdict
                                ELSE IF ~ev.created THEN "red:bad-create"
                                ELSE IF \E i \in LinkIds : links[i].head = N(ev.nh) /\ R(links[i].root) = R(N(ev.root))
                                     THEN "red:parallel-link" ELSE verdict
                  /\ UNCHANGED diag

HasShift(s, tok, to) == \E i \in DOMAIN ActsOn(s, tok) : ActsOn(s, tok)[i].a = "S" /\ ActsOn(s, tok)[i].to = to
Shift == IsEvent("shift") /\ Step /\ UNCHANGED <<inerr, heads, nred>>
  /\ LET root == N(ev.root)  nh == <<Skip(ev.root.pos + ev.len), ev.nh.st, "-">> IN
     IF ~HasShift(ev.root.st, ev.tok, ev.nh.st) THEN verdict' = "shift:no-such-action" /\ UNCHANGED <<links, diag>>
     ELSE IF root[3] # ev.tok THEN verdict' = "shift:not-the-lookahead" /\ UNCHANGED <<links, diag>>
     ELSE IF <<Skip(ev.nh.pos), ev.nh.st, "-">> # nh THEN verdict' = "shift:position" /\ UNCHANGED <<links, diag>>
     ELSE /\ verdict' = verdict
          \* the link must carry the shifting head's own token and span (finding D14 when it does not)
          /\ diag' = IF ev.ltok # ev.tok \/ ev.lstart # ev.root.pos \/ ev.lend # ev.root.pos + ev.len
                     THEN diag \cup {"shift:link-token"} ELSE diag
          /\ links' = IF ev.link \in LinkIds THEN links
                      ELSE (ev.link :> [head |-> nh, root |-> root, sym |-> ev.tok, alts |-> <<[tok |-> ev.tok]>>]) @@ links

Cand == UNION { UNION { { <<h, p, path>> : path \in Paths(h, Len(Prod(p).rhs)) } : p \in ReducesOf(h[2], h[3]) } : h \in heads }
Present(h, p, path) == \E i \in LinkIds : /\ links[i].head = Target(h, p, path) /\ R(links[i].root) = R(PathRoot(h, path))
                                          /\ \E a \in DOMAIN links[i].alts : links[i].alts[a].prod = p /\ links[i].alts[a].kids = path
Missing == { c \in Cand : ~Present(c[1], c[2], c[3]) }
D1Shape(h, path) == LET nodes == <<h>> \o [ i \in DOMAIN path |-> links[path[Len(path) + 1 - i]].root ]
                    IN \E i, j \in DOMAIN nodes : i # j /\ R(nodes[i]) = R(nodes[j])
ShiftPhase == IsEvent("shiftphase") /\ Step /\ UNCHANGED <<links, inerr, verdict, nred>>
  /\ heads' = {}
  /\ diag' = IF inerr \/ ev.err THEN diag
             ELSE LET m == Missing IN
                  diag \cup (IF \E c \in m : D1Shape(c[1], c[3]) THEN {"loss:node-twice"} ELSE {})
                       \cup (IF \E c \in m : ~D1Shape(c[1], c[3]) THEN {"loss:other"} ELSE {})
Acc == IsEvent("acc") /\ Step /\ UNCHANGED <<links, heads, inerr, diag, nred>>
       /\ verdict' = IF N(ev.head) \in heads /\ \E i \in DOMAIN ActsOn(ev.head.st, ev.head.la) : ActsOn(ev.head.st, ev.head.la)[i].a = "A"
                     THEN verdict ELSE "acc:not-acceptable"
ErrEnter == IsEvent("errenter") /\ Step /\ inerr' = TRUE /\ UNCHANGED <<links, heads, verdict, diag, nred>>
ErrFinish == IsEvent("errfinish") /\ Step /\ inerr' = FALSE /\ UNCHANGED <<links, heads, verdict, diag, nred>>
Recover == IsEvent("recover") /\ Step /\ UNCHANGED <<links, heads, inerr, verdict, diag, nred>>

Init == cid \in DOMAIN Cases /\ l = 1 /\ links = <<>> /\ heads = {} /\ inerr = FALSE /\ verdict = "ok" /\ diag = {} /\ nred = 0
Next == verdict = "ok" /\ (Scan \/ Red \/ Shift \/ ShiftPhase \/ Acc \/ ErrEnter \/ ErrFinish \/ Recover)
Spec == Init /\ [][Next]_vars
Report == (verdict # "ok" \/ l > Len(Trace)) => PrintT(<<"TRACE", C.cix, verdict, l, diag, nred>>)
=============================================================================
