----------------------------- MODULE LexCheck -----------------------------
(***************************************************************************)
(* Conformance of the REAL scanner with Lexer.tla (code -> spec, DESIGN 7   *)
(* C07).  One case = one terminal configuration realised as a real grammar  *)
(* (string, regex, keyword and custom recognizers), one parser kind and     *)
(* lexical_disambiguation value, scanned at one input position.  Recorded:  *)
(* the terminal attributes (projected from the real Grammar), the lengths   *)
(* the real recognizers match there, the key order and finish flags of the  *)
(* real table state, and the outcome (token shifted / DisambiguationError   *)
(* tokens / SyntaxError / set of GLR forks).                                *)
(***************************************************************************)
EXTENDS Lexer, TLC, Json, IOUtils

Cases == JsonDeserialize(IOEnv.CASES_FILE)
VARIABLES cid, phase, verdict
vars == <<cid, phase, verdict>>
C == Cases[cid]
T == C.terms
Names(S) == { T[i].name : i \in S }
Obs == { C.obs.toks[i] : i \in DOMAIN C.obs.toks }
\* In a state that also expects STOP, with consume_input off, the STOP token is offered next to the real ones: the LR parser prefers any
\* real token (longest match) and takes STOP when nothing matches; GLR pursues STOP as one more lookahead.
\* STOP behaves like a matching candidate of length 0 that is not subject to the priority rule: with lexical disambiguation on, any real
\* token beats it (longest match); with it off STOP is pursued next to the real tokens (LR: DisambiguationError, GLR: one more fork).
StopNames(S) == IF C.stop /\ (~C.ld \/ S = {}) THEN S \cup {"STOP"} ELSE S

Clauses ==
  LET ord == SpecOrder(T)
      flags == SpecFlags(T, ord, C.ld)
      impl == ImplWith(T, ord, flags, C.ld)
      doc == Doc(T, C.ld)
      documented == Unmarked(T) /\ WellFormed(T)
      want == IF documented THEN doc ELSE impl
  IN  (IF [ k \in DOMAIN ord |-> T[ord[k]].name ] # C.real_order THEN {"C07:candidate-order"} ELSE {})
 \cup (IF flags # C.real_flags THEN {"C07:finish-flags"} ELSE {})
 \cup (IF documented /\ StopNames(Names(doc)) # Obs THEN {"C07:documented-choice"} ELSE {})
 \cup (IF ~documented /\ StopNames(Names(impl)) # Obs THEN {"C07:marked-choice"} ELSE {})
 \cup (IF documented /\ impl # doc THEN {"C07:shortcuts-change-outcome"} ELSE {})
 \cup (IF C.parser = "lr" /\ C.obs.kind # (LET w == StopNames(Names(want)) IN IF Cardinality(w) = 0 THEN "syntax" ELSE IF w = {"STOP"} THEN "stop" ELSE IF Cardinality(w) = 1 THEN "token" ELSE "disamb")
       THEN {"C07:lr-outcome-kind"} ELSE {})
 \cup (IF C.parser = "glr" /\ C.obs.kind # (IF StopNames(Names(want)) = {} THEN "syntax" ELSE "forks") THEN {"C07:glr-outcome-kind"} ELSE {})
 \cup (IF C.obs.kind = "token" /\ \E i \in DOMAIN T : T[i].name \in Obs /\ T[i].mlen # C.obs.vlen THEN {"C07:token-length"} ELSE {})

Flags == [matching |-> Cardinality(Matching(T)), chosen |-> Cardinality(Doc(T, C.ld)), unmarked |-> Unmarked(T), wellformed |-> WellFormed(T)]

Init == cid \in DOMAIN Cases /\ phase = 0 /\ verdict = <<>>
Check == phase = 0 /\ phase' = 1 /\ UNCHANGED cid /\ verdict' = <<Clauses, Flags>>
Spec == Init /\ [][Check]_vars
Report == phase = 1 => PrintT(<<"VERDICT", C.cix, verdict[1], verdict[2]>>)
=============================================================================
