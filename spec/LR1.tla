------------------------------- MODULE LR1 -------------------------------
(***************************************************************************)
(* Reference LR(1)-family automata (DESIGN 3.3): canonical LR(1) item sets, *)
(* closure, goto, the reachable canonical collection, cores, LALR(1) and    *)
(* SLR(1) lookaheads.  Items are <<prodIndex, dot, lookahead>> over the      *)
(* production sequence P (P[1] = S' -> Start STOP).  No variables.           *)
(***************************************************************************)
EXTENDS CFG

\* G == [P, nts, N (nullable), F (first)] is precomputed once per grammar by the caller
GrammarCtx(P) == [P |-> P, nts |-> NTs(P), N |-> Nullable(P), F |-> First(P)]

RECURSIVE Closure(_, _)
Closure(G, S) ==
  LET P == G.P
      new == UNION { LET rhs == P[x[1]].rhs  d == x[2] IN
                     IF d < Len(rhs) /\ rhs[d+1] \in G.nts
                     THEN LET beta == SubSeq(rhs, d+2, Len(rhs))
                              las  == FirstOfSeq(P, G.N, G.F, beta)
                                      \cup (IF SeqNullable(P, G.N, beta) THEN {x[3]} ELSE {})
                          IN { <<q, 0, a>> : q \in { j \in DOMAIN P : P[j].lhs = rhs[d+1] }, a \in las }
                     ELSE {} : x \in S }
  IN IF new \subseteq S THEN S ELSE Closure(G, S \cup new)

Goto(G, S, X) ==
  Closure(G, { <<x[1], x[2]+1, x[3]>> : x \in { y \in S : y[2] < Len(G.P[y[1]].rhs) /\ G.P[y[1]].rhs[y[2]+1] = X } })
NextSyms(G, S) == { G.P[x[1]].rhs[x[2]+1] : x \in { y \in S : y[2] < Len(G.P[y[1]].rhs) } }
I0(G) == Closure(G, { <<1, 0, "STOP">> })

RECURSIVE AllLR1Fix(_, _, _, _)
AllLR1Fix(G, syms, seen, fr) ==
  IF fr = {} THEN seen
  ELSE AllLR1Fix(G, syms, seen \cup fr,
                 { Goto(G, S, X) : S \in fr, X \in syms } \ ({{}} \cup seen \cup fr))
\* the reachable canonical LR(1) collection (STOP is never shifted)
AllLR1(G, terms) == AllLR1Fix(G, (G.nts \cup terms) \ {"STOP"}, {}, {I0(G)})

Core(S) == { <<x[1], x[2]>> : x \in S }
Kernel(S) == { c \in Core(S) : c[2] > 0 \/ c[1] = 1 }
CanShift(G, S, t) == t \in NextSyms(G, S) /\ t # "STOP"
CanAccept(G, S) == "STOP" \in NextSyms(G, S)
CanReduce(G, S, t) == { x[1] : x \in { y \in S : y[2] = Len(G.P[y[1]].rhs) /\ y[3] = t } }
\* LALR(1) lookahead of the completed item of production p in the states with the core of I
LALRLA(G, all, I, p) == { x[3] : x \in { y \in UNION { T \in all : Core(T) = Core(I) } : y[1] = p /\ y[2] = Len(G.P[p].rhs) } }
=============================================================================
