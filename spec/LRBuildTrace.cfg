SPECIFICATION TSpec
CONSTANT RetryOthers = TRUE
INVARIANT Report
CHECK_DEADLOCK FALSE
