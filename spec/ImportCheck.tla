---------------------------- MODULE ImportCheck ----------------------------
(***************************************************************************)
(* C20 conformance (code -> spec): a generated import graph written to      *)
(* files and loaded with Grammar.from_file.  Per case: the real productions *)
(* (FQNs) vs Imports!Flatten; per input (a sequence of token texts): real   *)
(* acceptance vs CFG sentencehood over the flattened productions computed   *)
(* here, every forest tree's result vs Actions!Eval.                        *)
(***************************************************************************)
EXTENDS Imports, CFG, Actions, Json, IOUtils
Cases == JsonDeserialize(IOEnv.CASES_FILE)
VARIABLES cid, iid, phase
vars == <<cid, iid, phase>>
C == Cases[cid]
F == C.files
\* helper rules of the sugar are compared up to their names: a helper is renamed to <base FQN><documented suffix>
Canon(n) == IF n \in DOMAIN C.helpers THEN C.helpers[n].base \o MultSuffix(C.helpers[n].mult) \o (IF C.helpers[n].sep # "" THEN "_" \o C.helpers[n].sep ELSE "") ELSE n
RealSet == { [lhs |-> Canon(C.prods[i].lhs), rhs |-> [ k \in DOMAIN C.prods[i].rhs |-> Canon(C.prods[i].rhs[k]) ]] : i \in 2..Len(C.prods) }
RECURSIVE SetToSeq2(_)
SetToSeq2(S) == IF S = {} THEN <<>> ELSE LET x == CHOOSE y \in S : TRUE IN <<x>> \o SetToSeq2(S \ {x})
RefSeq == <<[lhs |-> "S'", rhs |-> <<StartName(F, C.root), "STOP">>]>> \o SetToSeq2(Flatten(F, C.root))
GrammarClauses ==
  IF ~C.built THEN {"C20:grammar-does-not-load-or-build"}
  ELSE (IF RealSet # Flatten(F, C.root) THEN {"C20:productions-differ-from-flattened-grammar"} ELSE {})
       \cup (LET used == UsedNames(F, C.root)
                  realUsed == UNION { { C.prods[i].rhs[k] : k \in DOMAIN C.prods[i].rhs } : i \in 2..Len(C.prods) } IN
             IF { x \in { <<C.terms[i][1], C.terms[i][2]>> : i \in DOMAIN C.terms } : x[1] \in realUsed } # { x \in TermTable(F, C.root) : x[1] \in used }
             THEN {"C20:terminals-differ-from-flattened-grammar"} ELSE {})
\* fact naming the class of the known finding D12: a file that is the target of an override is imported along more than one path
InEdges(g) == { <<f, i>> \in UNION { { <<ff, ii>> : ii \in DOMAIN F[ff].imports } : ff \in DOMAIN Prefixes(F, C.root) } : F[f].imports[i].target = g }
Facts == LET P == Prefixes(F, C.root) IN
         IF \E h \in DOMAIN P : \E i \in DOMAIN F[h].rules :
               IsOverride(F[h].rules[i]) /\ Cardinality(InEdges(OverrideTarget(F, h, F[h].rules[i])[1])) > 1
         THEN {"override-target-file-has-several-import-paths"} ELSE {}
Facts2 == IF SeparatorNameShared(F, Prefixes(F, C.root)) THEN {"separators-of-one-base-share-a-local-name"} ELSE {}
In == C.inputs[iid]
TT == TermTable(F, C.root)
Edges(toks) == UNION { { <<x[1], i-1, i>> : x \in { y \in TT : y[2] = toks[i] } } : i \in DOMAIN toks }
InputClauses ==
  LET P == RefSeq
      L == [nodes |-> 0..Len(In.toks), edges |-> Edges(In.toks), s0 |-> 0, n |-> Len(In.toks)]
      sentence == <<StartOf(P), 0, Len(In.toks)>> \in Spans(P, L)
      \* the parser of the single-file grammar written from the real productions (which GrammarClauses proves equal to Flatten) behaves
      \* the same on this input: a disagreement with the chart is then the parser's own (GLR findings D1/D2, property C01), not the imports'
      sameAsSingleFile == GrammarClauses = {} /\ In.hasflat /\ In.okflat = In.ok
      \* (a `glued` input is written without layout between two tokens: not a token sequence of the chart; parser against parser only)
  IN  (IF ~In.glued /\ In.ok # sentence /\ ~sameAsSingleFile THEN {"C20:language-differs-from-flattened-grammar"} ELSE {})
 \cup (IF In.hasflat /\ In.okflat # In.ok THEN {"C20:language-differs-from-single-file-parser"} ELSE {})
 \cup (IF ~In.glued /\ In.ok /\ In.complete /\ \E i \in DOMAIN In.trees : In.results[i] # Eval(C.prods, C.akind, C.assign, {}, In.trees[i])
       THEN {"C20:result-differs-from-flattened-grammar"} ELSE {})
 \cup (IF In.raised # "" THEN {"C20:parse-raises"} ELSE {})
Init == cid \in DOMAIN Cases /\ iid = 0 /\ phase = 0
Pick == iid = 0 /\ C.built /\ \E i \in DOMAIN C.inputs : iid' = i /\ UNCHANGED <<cid, phase>>
Chk == iid # 0 /\ phase = 0 /\ phase' = 1 /\ UNCHANGED <<cid, iid>>
Spec == Init /\ [][Pick \/ Chk]_vars
Report ==
  /\ phase = 1 => PrintT(<<"VERDICT", C.cix, iid, InputClauses>>)
  /\ (iid = 0 /\ phase = 0) => PrintT(<<"CASE", C.cix, GrammarClauses, Facts \cup Facts2>>)
=============================================================================
