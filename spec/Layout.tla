------------------------------- MODULE Layout -------------------------------
(***************************************************************************)
(* Layout is invisible (DESIGN 3.9 Layout, 7 C14).  One case = one grammar   *)
(* and one TOKEN sequence rendered with several layout fillings (variants). *)
(* The reference statement: the outcome is a function of the token sequence *)
(* alone -- every variant must give the same result, or an error at the     *)
(* same TOKEN (error positions are mapped through the order-preserving      *)
(* token-start map of each variant).  Second statement: for variants whose   *)
(* fillers are ws characters only, the ws-parameter parser and the parser    *)
(* of the same grammar with a LAYOUT rule matching runs of ws characters     *)
(* give identical trees including node positions and layout_content, and    *)
(* identical error positions.  `junk` variants carry a whitespace-LIKE       *)
(* character that is not in ws (form feed, no-break space, line separator): *)
(* they are not layout variations (left out of the first statement), but    *)
(* the ws-parameter parser and the LAYOUT-rule parser must still agree on   *)
(* them -- both stop at that character.                                     *)
(***************************************************************************)
EXTENDS Naturals, Sequences, FiniteSets, TLC, Json, IOUtils
Cases == JsonDeserialize(IOEnv.CASES_FILE)
VARIABLES cid, phase
C == Cases[cid]
V == C.variants
\* the token an error position denotes in a variant: index of the token starting there, n+1 for the end of input, 0 = no token starts there
ErrTok(v, pos) ==
  LET ks == { k \in DOMAIN v.tokstart : v.tokstart[k] = pos } IN
  IF ks # {} THEN CHOOSE k \in ks : TRUE
  ELSE IF pos = v.endpos THEN Len(v.tokstart) + 1 ELSE 0
\* an outcome up to layout: the result (positions stripped) or the exception class with the offending token
Abstract(v, o) == IF o.kind = "ok" THEN <<"ok", o.res>> ELSE <<o.kind, o.cls, ErrTok(v, o.pos)>>
Plain == { i \in DOMAIN V : ~V[i].junk }
Outcomes(field) == { Abstract(V[i], V[i][field]) : i \in Plain }
WsOnly == { i \in DOMAIN V : V[i].wsonly \/ V[i].junk }
Clauses ==
      (IF Cardinality(Outcomes("lr")) > 1 THEN {"C14:lr-outcome-depends-on-layout"} ELSE {})
 \cup (IF Cardinality(Outcomes("glr")) > 1 THEN {"C14:glr-outcome-depends-on-layout"} ELSE {})
 \cup (IF \E i \in Plain : \E f \in {"lr", "glr"} : V[i][f].kind = "exc" /\ V[i][f].cls = "SyntaxError" /\ ErrTok(V[i], V[i][f].pos) = 0
       THEN {"C14:error-position-not-at-a-token-start"} ELSE {})
 \cup (IF C.pair /\ \E i \in WsOnly : V[i].lr.full # V[i].lrL.full THEN {"C14:lr-ws-parameter-vs-layout-rule"} ELSE {})
 \cup (IF C.pair /\ \E i \in WsOnly : V[i].glr.full # V[i].glrL.full THEN {"C14:glr-ws-parameter-vs-layout-rule"} ELSE {})
Init == cid \in DOMAIN Cases /\ phase = 0
Next == phase = 0 /\ phase' = 1 /\ UNCHANGED cid
Spec == Init /\ [][Next]_<<cid, phase>>
Report == phase = 1 => PrintT(<<"VERDICT", C.cix, Clauses, Cardinality(Outcomes("lr"))>>)
=============================================================================
