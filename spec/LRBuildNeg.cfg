SPECIFICATION BSpec
CONSTANT RetryOthers = FALSE
INVARIANT Bounded
INVARIANT Faithful
PROPERTY Terminates
CHECK_DEADLOCK FALSE
