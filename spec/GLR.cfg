SPECIFICATION Spec
INVARIANT Agree
INVARIANT AcceptIff
CHECK_DEADLOCK FALSE
