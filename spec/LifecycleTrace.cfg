SPECIFICATION TSpec
CONSTANTS Kinds = {"lr", "glr", "slr", "lrrec", "glrrec", "lrld0", "glrld1"}
  FailKinds = {"conflict"}
  Inputs = {"ok", "bad", "act", "rec", "recerr", "kw", "empty"}
  MaxSteps = 20
INVARIANT Report
CHECK_DEADLOCK FALSE
