----------------------------- MODULE Lifecycle -----------------------------
(***************************************************************************)
(* Reuse of parsers and grammars (DESIGN 3.8, 7 C15): machine + trace spec. *)
(*                                                                         *)
(* One Grammar object, several parsers built from it, a history of calls.   *)
(* The machine tracks the state the code keeps between calls and that the   *)
(* property says must NOT matter: which parsers exist, whether the FIRST    *)
(* sets are cached on the grammar, and the augmented production (rewritten  *)
(* while a table is built: `main` outside a build, `layout` while the       *)
(* LAYOUT sub-parser's table is built; the rewrite and the restore are      *)
(* separate steps of the code, so a failure between them would leave        *)
(* `layout` or `dirty` behind).                                             *)
(* Reference (HistoryIndependent): the reply of every parse equals the      *)
(* reply of the same call on a freshly built grammar and parser.            *)
(*                                                                         *)
(* TLC enumerates ALL histories up to MaxSteps (exhaustive) or random       *)
(* longer ones (-simulate); each is replayed on real objects (spec -> code) *)
(* and comes back as a trace that LifecycleTrace validates (code -> spec).  *)
(***************************************************************************)
EXTENDS Naturals, Sequences, FiniteSets, TLC
CONSTANTS Kinds,     \* parser configurations, e.g. {"lr", "glr", "slr", "lrrec", "glrrec", "lrld0", "glrld1"}
          FailKinds, \* builds that fail: {"conflict", "initerror"}
          Inputs,    \* probe inputs: sentence, non-sentence, raising inside an action, raising inside a recognizer, ...
          MaxSteps
VARIABLES built, firstCached, aug, n, hist
vars == <<built, firstCached, aug, n, hist>>

Init == built = {} /\ firstCached = FALSE /\ aug = "main" /\ n = 0 /\ hist = <<>>
Tick(ev) == n < MaxSteps /\ n' = n + 1 /\ hist' = Append(hist, ev)
\* a successful build: the table is created (FIRST sets cached on the grammar), production 0 rewritten and restored
Build(k) == Tick(<<"build", k, "">>) /\ built' = built \cup {k} /\ firstCached' = TRUE /\ aug' = "main"
\* a build that fails: conflicts are detected AFTER the table was created and production 0 restored;
\* an unresolvable action name fails BEFORE any table work
BuildFail(f) == /\ Tick(<<"buildfail", f, "">>) /\ UNCHANGED built /\ aug' = "main"
                /\ firstCached' = IF f = "conflict" THEN TRUE ELSE firstCached
\* parsing never changes what later calls see
Parse(k, x) == k \in built /\ Tick(<<"parse", k, x>>) /\ UNCHANGED <<built, firstCached, aug>>
Next == (\E k \in Kinds : Build(k)) \/ (\E f \in FailKinds : BuildFail(f)) \/ (\E k \in Kinds, x \in Inputs : Parse(k, x))
Spec == Init /\ [][Next]_vars
AugRestored == aug = "main"
\* emit every maximal history (shorter ones are its prefixes); read by the replay harness
Emit == n = MaxSteps => PrintT(<<"HIST", hist>>)
=============================================================================
