SPECIFICATION Spec
CONSTANTS
  K = 2
  SentLen = 7
  AnyLen = 4
  MixedAssoc = TRUE
INVARIANT ConflictFree
INVARIANT ParsesToPrecCorrectTree
CHECK_DEADLOCK FALSE
