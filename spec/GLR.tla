-------------------------------- MODULE GLR --------------------------------
(***************************************************************************)
(* Design-level GLR machine (DESIGN 3.5): the order-insensitive GSS driver  *)
(* over an LALR(1) table that is itself SYNTHESISED in TLA+ from the        *)
(* canonical LR(1) collection (LR1.tla), checked by TLC against the chart   *)
(* reference (CFG.tla) on a bounded family of grammars and inputs.  This is *)
(* the theorem the oracle of C01/C02 rests on:                              *)
(*        GLR(table(G), w) returns exactly CFG!RefForest(G, w)              *)
(* -- chart, LR automaton and GSS agree -- including on the grammars where  *)
(* the implementation loses or duplicates derivations (findings D1, D2):    *)
(* the specified algorithm is complete, the defect is in the                *)
(* implementation's optimisation.                                           *)
(*                                                                         *)
(* Nodes are <<position, state>> (state = a core: set of <<prod, dot>>),    *)
(* links [head, root, sym], alternatives [head, root, prod, path] with      *)
(* path = the links from the root to the reducing head.  One `Advance` step *)
(* closes a frontier under reductions (a monotone closure: AddAlt steps     *)
(* commute and stay enabled, so the fixpoint is order-independent) and then *)
(* shifts the next token.  Cases: [prods, terms, inputs] from a JSON file;  *)
(* the table is computed in a `Build` step, inputs are picked by `Pick`.    *)
(***************************************************************************)
EXTENDS LR1, Integers, TLC, Json, IOUtils

Cases == JsonDeserialize(IOEnv.CASES_FILE)
VARIABLES cid, k, links, alts, heads, accepted, done, tbl, toks
vars == <<cid, k, links, alts, heads, accepted, done, tbl, toks>>
C == Cases[cid]
P == C.prods
Terms == { C.terms[i] : i \in DOMAIN C.terms }
N == Len(toks)
NoTbl == [none |-> TRUE]
NoToks == <<"?">>

\* ---- LALR(1) table = canonical collection merged by core
Table ==
  LET G == GrammarCtx(P)
      all == AllLR1(G, Terms)
      cores == { Core(S) : S \in all }
      items == [ c \in cores |-> UNION { T \in all : Core(T) = c } ]
  IN [ goto |-> [ c \in cores |-> [ X \in { Y \in (G.nts \cup Terms) : Y # "STOP" /\ Y \in NextSyms(G, items[c]) } |-> Core(Goto(G, items[c], X)) ] ],
       red  |-> [ c \in cores |-> [ t \in Terms \cup {"STOP"} |-> CanReduce(G, items[c], t) ] ],
       acc  |-> { c \in cores : "STOP" \in NextSyms(G, items[c]) },
       c0   |-> Core(I0(G)) ]

\* ---- abstract GSS closure of one frontier
La(pos) == IF pos < N THEN toks[pos+1] ELSE "STOP"
RECURSIVE Paths(_, _, _)
Paths(L, n, len) == IF len = 0 THEN { <<>> }
                    ELSE UNION { { p \o <<e>> : p \in Paths(L, e.root, len-1) } : e \in { f \in L : f.head = n } }
PathRoot(n, path) == IF path = <<>> THEN n ELSE path[1].root
ReduceStep(T, L, H, pos) ==
  { LET h == c[1]  p == c[2]  path == c[3]  root == PathRoot(h, path)
    IN [head |-> <<pos, T.goto[root[2]][P[p].lhs]>>, root |-> root, prod |-> p, path |-> path] :
    c \in UNION { UNION { { <<h, p, path>> : path \in Paths(L, h, Len(P[p].rhs)) } : p \in T.red[h[2]][La(pos)] } : h \in H } }
RECURSIVE CloseFrontier(_, _, _, _, _)
CloseFrontier(T, L, A, H, pos) ==
  LET na == ReduceStep(T, L, H, pos)
      A2 == A \cup na
      L2 == L \cup { [head |-> a.head, root |-> a.root, sym |-> P[a.prod].lhs] : a \in na }
      H2 == H \cup { a.head : a \in na }
  IN IF A2 = A /\ L2 = L /\ H2 = H THEN [links |-> L, alts |-> A, heads |-> H]
     ELSE CloseFrontier(T, L2, A2, H2, pos)

Init == /\ cid \in DOMAIN Cases /\ k = 0 /\ links = {} /\ alts = {} /\ accepted = {} /\ done = FALSE
        /\ tbl = NoTbl /\ heads = {} /\ toks = NoToks
Build == tbl = NoTbl /\ tbl' = Table /\ UNCHANGED <<cid, k, links, alts, heads, accepted, done, toks>>
Pick == /\ tbl # NoTbl /\ toks = NoToks
        /\ \E i \in DOMAIN C.inputs : toks' = C.inputs[i]
        /\ heads' = { <<0, tbl.c0>> } /\ UNCHANGED <<cid, k, links, alts, accepted, done, tbl>>
Advance ==
  /\ ~done /\ toks # NoToks
  /\ LET cl == CloseFrontier(tbl, links, alts, heads, k) IN
     /\ alts' = cl.alts
     /\ accepted' = accepted \cup (IF k = N THEN { h \in cl.heads : h[2] \in tbl.acc } ELSE {})
     /\ IF k < N
        THEN LET sh == { h \in cl.heads : toks[k+1] \in DOMAIN tbl.goto[h[2]] }
                 nl == { [head |-> <<k+1, tbl.goto[h[2]][toks[k+1]]>>, root |-> h, sym |-> toks[k+1]] : h \in sh }
             IN links' = cl.links \cup nl /\ heads' = { e.head : e \in nl } /\ k' = k + 1 /\ done' = FALSE
        ELSE links' = cl.links /\ heads' = cl.heads /\ k' = k /\ done' = TRUE
  /\ UNCHANGED <<cid, tbl, toks>>
Next == Build \/ Pick \/ Advance
Spec == Init /\ [][Next]_vars

\* ---- the chart reference for the picked input (linear lattice)
Lin == [nodes |-> 0..N, edges |-> { <<toks[i], i-1, i>> : i \in 1..N }, s0 |-> 0, n |-> N]
Ref == RefForest(P, Lin, RootsConsume(P, Lin))
\* ---- what the GSS built: alternatives reachable from the accepted heads' links to the start node
AltSplits(a) == IF a.path = <<>> THEN <<a.head[1]>> ELSE <<a.path[1].root[1]>> \o [ i \in DOMAIN a.path |-> a.path[i].head[1] ]
LinkOf(a) == [head |-> a.head, root |-> a.root, sym |-> P[a.prod].lhs]
RootLinks == { e \in links : e.head \in accepted /\ e.root = <<0, tbl.c0>> /\ e.sym = StartOf(P) }
RECURSIVE ReachAlts(_, _)
ReachAlts(fr, seen) ==
  IF fr = {} THEN seen
  ELSE LET as == { a \in alts : LinkOf(a) \in fr }
           kids == UNION { { a.path[i] : i \in DOMAIN a.path } : a \in as }
           seen2 == seen \cup fr
       IN ReachAlts(kids \ seen2, seen2)
ImplPacked == LET R == ReachAlts(RootLinks, {}) IN { <<a.prod, AltSplits(a)>> : a \in { b \in alts : LinkOf(b) \in R } }

\* ---- the theorem
Agree == done => ImplPacked = Ref.packed
AcceptIff == done => ((accepted # {}) <=> (RootsConsume(P, Lin) \cap Ref.all # {}))
=============================================================================
