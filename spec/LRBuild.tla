------------------------------ MODULE LRBuild ------------------------------
(***************************************************************************)
(* The LALR table CONSTRUCTION as a state machine, shaped like the          *)
(* implementation (parglare/tables/__init__.py create_table, merge_states;  *)
(* closure.py) -- DESIGN 3.3 'LRTable!Build', 7 C05.                        *)
(*                                                                         *)
(*   st      the automaton states created so far: [core, la, sym] -- the    *)
(*           kernel items <<prod, dot>> with their lookahead sets           *)
(*   procd   ids in the order they were taken off the queue (`states`)      *)
(*   queue   ids waiting (`state_queue`, FIFO)                              *)
(*   cur/cl/pend   the state being expanded, its closure (computed when it  *)
(*           was popped and NOT refreshed while its symbols are handled),   *)
(*           the symbols still to handle                                    *)
(*   goto    the transitions entered so far                                 *)
(* Pop takes the head of the queue and closes it.  Handle(X) forms the      *)
(* kernel reached over X and looks for a state with the same core: first    *)
(* among the expanded states, then in the queue.  If there is none it is    *)
(* created.  If there is one, merging is tried (merge_states: refused when  *)
(* it would let two completed kernel items share a new lookahead; only      *)
(* COMPLETED kernel items receive lookaheads here); on refusal the other    *)
(* states with that core are tried in order, and only if all refuse a new   *)
(* state is split off.  When the queue is empty, Propagate re-closes every  *)
(* state and pushes kernel lookaheads along the transitions, round by       *)
(* round, until nothing changes.                                            *)
(*                                                                         *)
(* The order in which the symbols of a state are handled is left open       *)
(* (HandleAny): design-level model checking explores every order.  Trace    *)
(* validation (LRBuildTrace.tla) fixes it to the recorded one.              *)
(*                                                                         *)
(* Design-level properties, checked by TLC on families of small grammars:   *)
(*   Bounded        never more states than 4 * |canonical LR(1)| + 8        *)
(*   Terminates     every behaviour reaches phase "done" (liveness)         *)
(*   Faithful       at "done": no lookahead outside LALR(1), and the        *)
(*                  canonical LR(1) automaton is simulated (every canonical *)
(*                  item with its lookahead lies in the state reached by    *)
(*                  the same viable prefix, every transition exists)        *)
(***************************************************************************)
EXTENDS LR1, Integers, TLC, Json, IOUtils

CONSTANT RetryOthers   \* TRUE = the algorithm as repaired (fix a3802e2, finding D4); FALSE = negative control: split at once when the first state refuses

\* ---- pure operators over an explicit machine state (so that the trace module can reuse them)
NoState == 0      \* ids are 1-based here: state id of the implementation + 1
KernelOf(G, cl, X) ==
  LET moved == { <<x[1], x[2]+1, x[3]>> : x \in { y \in cl : y[2] < Len(G.P[y[1]].rhs) /\ G.P[y[1]].rhs[y[2]+1] = X } }
      core == { <<x[1], x[2]>> : x \in moved }
  IN [core |-> core, la |-> [ c \in core |-> { x[3] : x \in { y \in moved : y[1] = c[1] /\ y[2] = c[2] } } ], sym |-> X]
ItemsOf(s) == UNION { { <<c[1], c[2], a>> : a \in s.la[c] } : c \in s.core }
AtEnd(G, c) == c[2] = Len(G.P[c[1]].rhs)
\* merge_states: would merging `new` into `old` give two completed kernel items a common NEW lookahead?
MergeOK(G, old, new) ==
  \A c \in { d \in old.core : AtEnd(G, d) } :
    \A o \in { d \in old.core : AtEnd(G, d) /\ d # c } :
       (old.la[o] \cap (new.la[c] \ old.la[c])) = {}
Merged(G, old, new) == [old EXCEPT !.la = [ c \in old.core |-> IF AtEnd(G, c) THEN old.la[c] \cup new.la[c] ELSE old.la[c] ]]
\* first id of the sequence `ids` that belongs to the set S
RECURSIVE FirstIn(_, _, _)
FirstIn(ids, i, S) == IF i > Len(ids) THEN NoState ELSE IF ids[i] \in S THEN ids[i] ELSE FirstIn(ids, i+1, S)

\* the decision of one Handle step: <<how, target, st'>> ; how \in {"new", "merge", "merge-other", "split"}
Decide(G, sts, procd, queue, k) ==
  LET order == procd \o queue
      same == { i \in DOMAIN sts : sts[i].core = k.core }
      t == FirstIn(order, 1, same)
  IN IF t = NoState THEN <<"new", Len(sts) + 1, Append(sts, k)>>
     ELSE IF MergeOK(G, sts[t], k) THEN <<"merge", t, [sts EXCEPT ![t] = Merged(G, sts[t], k)]>>
     ELSE LET o == IF RetryOthers THEN FirstIn(order, 1, { i \in same : i # t /\ MergeOK(G, sts[i], k) }) ELSE NoState
          IN IF o # NoState THEN <<"merge-other", o, [sts EXCEPT ![o] = Merged(G, sts[o], k)]>>
             ELSE <<"split", Len(sts) + 1, Append(sts, k)>>

\* one propagation round: re-close every state, then push kernel lookaheads along the transitions
PropagateRound(G, sts, gt) ==
  LET cls == [ i \in DOMAIN sts |-> Closure(G, ItemsOf(sts[i])) ]
      incoming(j, c) == UNION { { x[3] : x \in { y \in cls[e[1]] : y[1] = c[1] /\ y[2] + 1 = c[2] } } : e \in { f \in DOMAIN gt : gt[f] = j /\ sts[j].sym = f[2] } }
  IN [ j \in DOMAIN sts |-> [sts[j] EXCEPT !.la = [ c \in sts[j].core |-> sts[j].la[c] \cup (IF c[2] > 0 THEN incoming(j, c) ELSE {}) ]] ]

\* ---- the machine
\* one case = one grammar [prods, terms] (design level: a family of small grammars; trace validation: the recorded grammar)
Cases == JsonDeserialize(IOEnv.CASES_FILE)
VARIABLES cid, st, procd, queue, cur, cl, pend, goto, phase
bvars == <<cid, st, procd, queue, cur, cl, pend, goto, phase>>
C == Cases[cid]
Prods == C.prods
TermSet == { C.terms[i] : i \in DOMAIN C.terms }
G == GrammarCtx(Prods)
Start == [core |-> { <<1, 0>> }, la |-> ( <<1, 0>> :> {"STOP"} ), sym |-> "S'"]
BInit == /\ cid \in DOMAIN Cases /\ st = <<Start>> /\ procd = <<>> /\ queue = <<1>> /\ cur = NoState /\ cl = {} /\ pend = {} /\ goto = <<>> /\ phase = "expand"
Pop == /\ phase = "expand" /\ cur = NoState /\ queue # <<>>
       /\ cur' = Head(queue) /\ queue' = Tail(queue) /\ procd' = Append(procd, Head(queue))
       /\ cl' = Closure(G, ItemsOf(st[Head(queue)]))
       /\ pend' = NextSyms(G, cl') \ {"STOP"}
       /\ UNCHANGED <<cid, st, goto, phase>>
Handle(X) ==
  /\ phase = "expand" /\ cur # NoState /\ X \in pend
  /\ LET d == Decide(G, st, procd, queue, KernelOf(G, cl, X)) IN
     /\ st' = d[3]
     /\ queue' = IF d[1] \in {"new", "split"} THEN Append(queue, d[2]) ELSE queue
     /\ goto' = (<<cur, X>> :> d[2]) @@ goto
  /\ pend' = pend \ {X}
  /\ cur' = IF pend' = {} THEN NoState ELSE cur
  /\ UNCHANGED <<cid, procd, cl, phase>>
Finish == /\ phase = "expand" /\ cur = NoState /\ queue = <<>> /\ phase' = "propagate" /\ UNCHANGED <<cid, st, procd, queue, cur, cl, pend, goto>>
\* a popped state without outgoing symbols releases `cur` at once
Idle == /\ phase = "expand" /\ cur # NoState /\ pend = {} /\ cur' = NoState /\ UNCHANGED <<cid, st, procd, queue, cl, pend, goto, phase>>
Propagate == /\ phase = "propagate"
             /\ LET s2 == PropagateRound(G, st, goto) IN
                IF s2 = st THEN phase' = "done" /\ UNCHANGED st ELSE st' = s2 /\ UNCHANGED phase
             /\ UNCHANGED <<cid, procd, queue, cur, cl, pend, goto>>
HandleAny == \E X \in pend : Handle(X)
BNext == Pop \/ HandleAny \/ Idle \/ Finish \/ Propagate
BSpec == BInit /\ [][BNext]_bvars /\ WF_bvars(BNext)
Terminates == <>(phase = "done")

\* ---- design-level properties
AllC == AllLR1(G, TermSet)
Bounded == Len(st) <= 4 * Cardinality(AllC) + 8
FinalItems(i) == Closure(G, ItemsOf(st[i]))
LALRUpper == \A i \in DOMAIN st : \A x \in FinalItems(i) :
                x[3] \in { y[3] : y \in { z \in UNION { T \in AllC : Core(T) = Core(FinalItems(i)) } : z[1] = x[1] /\ z[2] = x[2] } }
\* simulation of the canonical automaton: pairs <<canonical set, state id>> reachable together
RECURSIVE SimPairs(_, _)
SimPairs(seen, fr) ==
  IF fr = {} THEN seen
  ELSE LET nxt == UNION { { <<Goto(G, p[1], X), goto[<<p[2], X>>]>> : X \in { Y \in NextSyms(G, p[1]) \ {"STOP"} : <<p[2], Y>> \in DOMAIN goto } } : p \in fr }
       IN SimPairs(seen \cup fr, nxt \ (seen \cup fr))
Simulates ==
  LET pairs == SimPairs({}, { <<I0(G), 1>> }) IN
  \A p \in pairs : /\ p[1] \subseteq FinalItems(p[2])
                   /\ \A X \in NextSyms(G, p[1]) \ {"STOP"} : <<p[2], X>> \in DOMAIN goto
Faithful == (phase = "done") => (LALRUpper /\ Simulates)
=============================================================================
