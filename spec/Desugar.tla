------------------------------ MODULE Desugar ------------------------------
(***************************************************************************)
(* The DOCUMENTED plain-BNF expansion of parglare's syntactic sugar         *)
(* (docs/grammar_language.md "Syntactic sugar - BNF extensions"; DESIGN 3.9 *)
(* Desugar, 7 C13).  A rule is [name, alts]; an alternative a sequence of   *)
(* items                                                                    *)
(*   [kind |-> "sym", sym, mult, sep, greedy]                               *)
(*   [kind |-> "grp", id, alts, mult, sep, greedy]    parenthesised group    *)
(* with mult in {"", "+", "*", "?"} and sep = "" for no separator.           *)
(*   x?        x_opt: x | EMPTY                                              *)
(*   x+        x_1: x_1 x | x                         (@collect)             *)
(*   x+[s]     x_1_s: x_1_s s x | x                   (@collect_sep)         *)
(*   x*        x_0: x_1 | EMPTY        + the rules of x+                     *)
(*   x*[s]     x_0_s: x_1_s | EMPTY    + the rules of x+[s]                  *)
(*   ( ... )   an anonymous rule (named by the item's id here)               *)
(* Greedy variants have the same expansion as far as the LANGUAGE goes.     *)
(* Expand yields a SET of productions [lhs, rhs]: each helper rule is       *)
(* contributed once however often it is used.                               *)
(***************************************************************************)
EXTENDS Naturals, Sequences, FiniteSets

MultTag(m) == CASE m = "+" -> "1" [] m = "*" -> "0" [] m = "?" -> "opt" [] OTHER -> ""
BaseName(it) == IF it.kind = "sym" THEN it.sym ELSE it.id
SepSuffix(it) == IF it.sep = "" THEN "" ELSE "_" \o it.sep
RefName(it) == IF it.mult = "" THEN BaseName(it) ELSE BaseName(it) \o "_" \o MultTag(it.mult) \o SepSuffix(it)
OneName(it) == BaseName(it) \o "_1" \o SepSuffix(it)

HelperProds(it) ==
  LET b == BaseName(it)  one == OneName(it)
      plus == { [lhs |-> one, rhs |-> IF it.sep = "" THEN <<one, b>> ELSE <<one, it.sep, b>>], [lhs |-> one, rhs |-> <<b>>] }
  IN CASE it.mult = "+" -> plus
       [] it.mult = "*" -> plus \cup { [lhs |-> RefName(it), rhs |-> <<one>>], [lhs |-> RefName(it), rhs |-> <<>>] }
       [] it.mult = "?" -> { [lhs |-> RefName(it), rhs |-> <<b>>], [lhs |-> RefName(it), rhs |-> <<>>] }
       [] OTHER -> {}

RECURSIVE RuleProds(_, _)
RECURSIVE ItemProds(_)
ItemProds(it) == HelperProds(it) \cup (IF it.kind = "grp" THEN RuleProds(it.id, it.alts) ELSE {})
RuleProds(name, alts) ==
  { [lhs |-> name, rhs |-> [ i \in DOMAIN alts[a] |-> RefName(alts[a][i]) ]] : a \in DOMAIN alts }
  \cup UNION { UNION { ItemProds(alts[a][i]) : i \in DOMAIN alts[a] } : a \in DOMAIN alts }

Expand(rules) == UNION { RuleProds(rules[r].name, rules[r].alts) : r \in DOMAIN rules }

RECURSIVE SetToSeq(_)
SetToSeq(S) == IF S = {} THEN <<>> ELSE LET x == CHOOSE y \in S : TRUE IN <<x>> \o SetToSeq(S \ {x})
\* the expansion as a production sequence for CFG.tla (P[1] = S' -> start STOP)
ExpandSeq(rules) == <<[lhs |-> "S'", rhs |-> <<rules[1].name, "STOP">>]>> \o SetToSeq(Expand(rules))

RECURSIVE HasGroup(_)
HasGroupAlt(alt) == \E i \in DOMAIN alt : alt[i].kind = "grp"
HasGroup(rules) == \E r \in DOMAIN rules : \E a \in DOMAIN rules[r].alts : HasGroupAlt(rules[r].alts[a])
RECURSIVE AnyGreedyAlts(_)
AnyGreedyAlts(alts) == \E a \in DOMAIN alts : \E i \in DOMAIN alts[a] :
                          alts[a][i].greedy \/ (alts[a][i].kind = "grp" /\ AnyGreedyAlts(alts[a][i].alts))
AnyGreedy(rules) == \E r \in DOMAIN rules : AnyGreedyAlts(rules[r].alts)
=============================================================================
