----------------------------- MODULE GLRCheck -----------------------------
(***************************************************************************)
(* Final-state conformance of REAL GLRParser runs against the reference     *)
(* (code -> spec, API-level observations; DESIGN 3.5 final-state            *)
(* properties, 4.1, 7 C01/C02/C03/C17).                                     *)
(*                                                                         *)
(* A case is one real call GLRParser(grammar, opts).parse(input): the       *)
(* grammar's productions, the lattice data computed from the real           *)
(* recognizers (match lengths per terminal and position, the layout skip    *)
(* table), and what the call returned: the packed forest as seen through    *)
(* Forest.result, len/solutions/ambiguities, enumerated trees, the replies  *)
(* to out-of-range indices, or the exception.  TLC evaluates every clause   *)
(* of the property statements on it and prints one verdict tuple per case:  *)
(*    <<"VERDICT", cix, failing clauses, info>>                            *)
(* The harness only parses these tuples.                                    *)
(***************************************************************************)
EXTENDS CFG, Forest, Integers, TLC, Json, IOUtils

Cases == JsonDeserialize(IOEnv.CASES_FILE)
VARIABLES cid, phase, verdict
vars == <<cid, phase, verdict>>

C == Cases[cid]
P == C.prods
N == C.n
Terms == { C.terms[i] : i \in DOMAIN C.terms }
InR(x) == x \in 0..N
Skip(p) == C.skip[p+1]
Nodes == { Skip(p) : p \in 0..N }
MLen(t, p) == C.match[t][p+1]
Edges == { <<x[1], x[2], Skip(x[2] + MLen(x[1], x[2]))>> : x \in { y \in Terms \X Nodes : MLen(y[1], y[2]) > 0 } }
L == [nodes |-> Nodes, edges |-> Edges, s0 |-> Skip(0), n |-> N]
Roots == IF C.consume THEN RootsConsume(P, L) ELSE RootsPrefix(P, L)

FN == C.forest.nodes
NN == Len(FN)
Root == C.forest.root
AltsOf(n) == { FN[n].alts[i] : i \in DOMAIN FN[n].alts }
AllAlts == UNION { AltsOf(n) : n \in 1..NN }
NAlts == { a \in AllAlts : ~IsTok(a) }
TAlts == { a \in AllAlts : IsTok(a) }

\* ---- shape of the recorded forest (so that later clauses cannot index out of range)
Shape ==
  /\ Root \in 1..NN
  /\ \A n \in 1..NN : Len(FN[n].alts) > 0
  /\ \A a \in TAlts : a.t \in Terms
  /\ \A a \in NAlts : /\ (a.p + 1) \in UserProds(P)
                      /\ Len(a.c) = Len(P[a.p+1].rhs)
                      /\ \A i \in DOMAIN a.c : a.c[i] \in 1..NN
PosInRange ==
  /\ \A n \in 1..NN : InR(FN[n].s) /\ InR(FN[n].e) /\ FN[n].s <= FN[n].e
  /\ \A a \in AllAlts : InR(a.s) /\ InR(a.e) /\ a.s <= a.e

SymOfAlt(a) == IF IsTok(a) THEN a.t ELSE P[a.p+1].lhs
SymOfNode(n) == SymOfAlt(FN[n].alts[1])
Symbols ==
  /\ \A n \in 1..NN : \A a \in AltsOf(n) : SymOfAlt(a) = SymOfNode(n)
  /\ \A a \in NAlts : \A i \in DOMAIN a.c : SymOfNode(a.c[i]) = P[a.p+1].rhs[i]

\* ---- positions, normalised through the layout skip table
ASpan(a) == <<Skip(a.s), Skip(a.e)>>
NSpan(n) == <<Skip(FN[n].s), Skip(FN[n].e)>>
PosNodeAlts == \A n \in (1..NN) \ {Root} : \A a \in AltsOf(n) : ASpan(a) = NSpan(n)
PosChain ==
  \A a \in NAlts :
    IF Len(a.c) = 0 THEN Skip(a.s) = Skip(a.e)
    ELSE /\ Skip(a.s) = NSpan(a.c[1])[1]
         /\ \A i \in 1..(Len(a.c)-1) : NSpan(a.c[i])[2] = NSpan(a.c[i+1])[1]
         /\ NSpan(a.c[Len(a.c)])[2] = Skip(a.e)
PosLeaves == \A a \in TAlts : a.s = Skip(a.s) /\ MLen(a.t, a.s) = a.e - a.s /\ a.e > a.s
RootSpans == { ASpan(a) : a \in AltsOf(Root) }
RootOK == /\ SymOfNode(Root) = StartOf(P)
          /\ \A sp \in RootSpans : sp[1] = L.s0 /\ (C.consume => sp[2] = N)

Splits(a) == IF Len(a.c) = 0 THEN <<Skip(a.s)>>
             ELSE <<Skip(a.s)>> \o [ i \in DOMAIN a.c |-> NSpan(a.c[i])[2] ]
ImplPacked == { <<a.p + 1, Splits(a)>> : a \in NAlts }

\* ---- counting on the recorded forest
Primes == <<32749, 32719, 32717, 32713>>
ImplCounts == Counts(FN, 0, TRUE)
ImplCountsMult == Counts(FN, 0, FALSE)
ResVec(dedup) == [ i \in 1..4 |-> Counts(FN, Primes[i], dedup).cnt[Root] ]

RECURSIVE NormTree(_)
NormTree(t) == IF t[1] = "T" THEN <<"T", t[2], Skip(t[3]), Skip(t[4])>>
               ELSE <<"N", t[2] + 1, [ i \in DOMAIN t[3] |-> NormTree(t[3][i]) ]>>
EnumK == 60   \* tree sets are materialised up to this many trees

TreeSetOK(ts, all) == \* the recorded enumeration is a bijection onto the trees of the root
  /\ Cardinality({ ts[i] : i \in DOMAIN ts }) = Len(ts)
  /\ { ts[i] : i \in DOMAIN ts } = all

ForestClauses(RF) ==
  LET sentence == (Roots \cap RF.all) # {}
      shape == Shape /\ PosInRange
      struct == shape /\ Symbols
      posok == struct /\ PosNodeAlts /\ PosChain /\ PosLeaves
      cyc == Cyclic(FN)
      ic == ImplCounts
      refInf == RefInfinite(P, RF)
      refc == RefCounts(P, RF)
      implP == ImplPacked
      refTotal == IF refInf THEN -1 ELSE SumOverRoots(P, RF, Roots, refc)
      small == shape /\ ~cyc /\ ~refInf /\ ImplCountsMult.cnt[Root] <= EnumK /\ refTotal <= EnumK
      implTrees == TreesOf(FN)[Root]
      implNorm == { NormTree(t) : t \in implTrees }
      refTrees == RefTreesOfRoots(P, RF, Roots)
  IN  (IF ~sentence THEN {"C01:accepts-nonsentence"} ELSE {})
 \cup (IF ~shape THEN {"C01:forest-shape"} ELSE {})
 \cup (IF shape /\ ~Symbols THEN {"C01:symbols"} ELSE {})
 \cup (IF struct /\ ~posok THEN {"C08:forest-positions"} ELSE {})
 \cup (IF posok /\ ~RootOK THEN {"C01:root"} ELSE {})
 \cup (IF posok /\ ~(implP \subseteq RF.packed) THEN {"C01:unsound-alternative"} ELSE {})
 \cup (IF posok /\ ~(RF.packed \subseteq implP) /\ ~refInf THEN {"C02:missing-alternative"} ELSE {})
 \cup (IF posok /\ ~(RF.packed \subseteq implP) /\ refInf THEN {"C02x:missing-alternative-cyclic"} ELSE {})
 \cup (IF shape /\ DupNodes(FN) # {} THEN {"C03:duplicate-alternative"} ELSE {})
 \cup (IF shape /\ C.count.loop # cyc THEN {"C03:looperror-iff-cyclic"} ELSE {})
 \cup (IF posok /\ implP = RF.packed /\ cyc # refInf THEN {"C03:cyclic-iff-infinite"} ELSE {})
 \* (whatever the recorded positions are worth: LoopError is for inputs with infinitely many derivations only)
 \cup (IF sentence /\ shape /\ C.count.loop /\ ~refInf THEN {"C03:looperror-although-finitely-many-derivations"} ELSE {})
 \cup (IF small /\ posok /\ ~(implNorm \subseteq refTrees) THEN {"C01:invalid-tree"} ELSE {})
 \cup (IF small /\ posok /\ ~(refTrees \subseteq implNorm) THEN {"C02:missing-tree"} ELSE {})
 \cup (IF small /\ ~C.count.loop /\ C.count.cap # Cardinality(implTrees) THEN {"C03:len"} ELSE {})
 \cup (IF ~small /\ shape /\ ~cyc /\ ~C.count.loop /\
          (C.count.cap # ic.cnt[Root] \/ C.count.res # ResVec(TRUE))
       THEN {"C03:len"} ELSE {})
 \cup (IF shape /\ ~cyc /\ ~C.count.loop /\ C.count.sol # C.count.cap THEN {"C03:solutions-vs-len"} ELSE {})
 \cup (IF shape /\ ~cyc /\ ~C.count.loop /\ C.count.amb # Cardinality(AmbNodes(FN)) THEN {"C03:ambiguities"} ELSE {})
 \cup (IF posok /\ ~small /\ implP = RF.packed /\ ~cyc /\ ~refInf /\ DupNodes(FN) = {} /\ refTotal > ic.cnt[Root]
       THEN {"C02:fewer-trees-than-reference"} ELSE {})
 \cup (IF shape /\ ~cyc /\ C.enum.done THEN
         LET all == implTrees IN
            (IF ~TreeSetOK(C.enum.lazy, all) THEN {"C03:enumeration-bijection"} ELSE {})
       \cup (IF C.enum.lazy # C.enum.nonlazy THEN {"C03:lazy-vs-nonlazy"} ELSE {})
       \cup (IF C.enum.lazy # C.enum.again THEN {"C03:repeated-access"} ELSE {})
       \cup (IF C.enum.iter # C.enum.lazy THEN {"C03:iteration"} ELSE {})
       \cup (IF Len(C.enum.lazy) > 0 /\ C.enum.first # C.enum.lazy[1] THEN {"C03:first-tree"} ELSE {})
       ELSE {})
 \cup (IF shape /\ ~cyc /\ ~C.count.loop /\ \E i \in DOMAIN C.enum.oob : C.enum.oob[i] # "IndexError"
       THEN {"C03:index-error"} ELSE {})

Info ==
  IF C.res.kind = "forest" /\ Shape /\ PosInRange
  THEN [dupmult |-> IF ~Cyclic(FN) THEN ImplCountsMult.cnt[Root] ELSE -1,
        distinct |-> IF ~Cyclic(FN) THEN ImplCounts.cnt[Root] ELSE -1,
        amb |-> Cardinality(AmbNodes(FN)), ambmult |-> Cardinality(AmbNodesMult(FN)),
        replen |-> C.count.cap, nodes |-> NN,
        lenIsMult |-> (~Cyclic(FN) /\ ~C.count.loop /\ C.count.cap = ImplCountsMult.cnt[Root])]
  ELSE [kind |-> C.res.kind]

RejectClauses(RF) ==
  LET sentence == (Roots \cap RF.all) # {}
  IN IF C.res.kind = "syntax" THEN (IF sentence THEN {"C01:rejects-sentence"} ELSE {})
     ELSE IF C.res.kind = "timeout" THEN {"C01:does-not-terminate"}
     ELSE (IF sentence THEN {"C01:raises-on-sentence"} ELSE {"C01:other-exception-on-nonsentence"})

Verdict(RF) == IF C.res.kind = "forest" THEN ForestClauses(RF) ELSE RejectClauses(RF)

\* nontriviality flags measured on the reference side (go into the evidence file)
Flags(RF) ==
  LET sentence == (Roots \cap RF.all) # {}
      total == IF ~RefInfinite(P, RF) THEN SumOverRoots(P, RF, Roots, RefCounts(P, RF)) ELSE -1
  IN [sentence |-> sentence, trees |-> total, nullable |-> Nullable(P) # {}]

Init == cid \in DOMAIN Cases /\ phase = 0 /\ verdict = <<>>
Check == /\ phase = 0 /\ phase' = 1 /\ UNCHANGED cid
         /\ LET RF == RefForest(P, L, Roots) IN verdict' = <<Verdict(RF), Info, Flags(RF)>>
Next == Check
Spec == Init /\ [][Next]_vars
Report == phase = 1 => PrintT(<<"VERDICT", C.cix, verdict[1], verdict[2], verdict[3]>>)
=============================================================================
