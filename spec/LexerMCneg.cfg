SPECIFICATION Spec
CONSTANTS NT = 2
  Priors = {10}
  MaxLen = 1
INVARIANT EquivNoAssumption
CHECK_DEADLOCK FALSE
