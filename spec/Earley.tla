------------------------------ MODULE Earley ------------------------------
(***************************************************************************)
(* Prefix viability by Earley item sets <<prod, dot, origin>> (DESIGN 3.1,  *)
(* Appendix A): the longest viable prefix of a token sequence and the       *)
(* terminals that can legally come next.  Valid as "can extend to a         *)
(* sentence" because every nonterminal of the explored grammars is          *)
(* productive.  P[1] = S' -> Start STOP; here the augmented item is         *)
(* <<1, 0, 0>> and STOP is treated as an ordinary terminal that is never    *)
(* part of the token sequence.  No variables.                               *)
(***************************************************************************)
EXTENDS Naturals, Sequences, FiniteSets, TLC

ENTs(P) == { P[i].lhs : i \in DOMAIN P }

RECURSIVE CloseSet(_, _, _, _)
\* S: the item set being closed (index k); Sets: function 0..k-1 -> closed item sets
CloseSet(P, S, Sets, k) ==
  LET nts  == ENTs(P)
      pred == UNION { LET rhs == P[x[1]].rhs IN
                      IF x[2] < Len(rhs) /\ rhs[x[2]+1] \in nts
                      THEN { <<q, 0, k>> : q \in { j \in DOMAIN P : P[j].lhs = rhs[x[2]+1] } }
                      ELSE {} : x \in S }
      comp == UNION { IF x[2] = Len(P[x[1]].rhs)
                      THEN LET src == IF x[3] = k THEN S ELSE Sets[x[3]] IN
                           { <<y[1], y[2]+1, y[3]>> :
                             y \in { z \in src : z[2] < Len(P[z[1]].rhs) /\ P[z[1]].rhs[z[2]+1] = P[x[1]].lhs } }
                      ELSE {} : x \in S }
      S2 == S \cup pred \cup comp
  IN IF S2 = S THEN S ELSE CloseSet(P, S2, Sets, k)

EScan(P, S, t) == { <<x[1], x[2]+1, x[3]>> : x \in { y \in S : y[2] < Len(P[y[1]].rhs) /\ P[y[1]].rhs[y[2]+1] = t } }

RECURSIVE ERun(_, _, _, _)
\* item sets 0..m for as long as they are non-empty (stops at the first empty set)
ERun(P, toks, Sets, k) ==
  IF k = Len(toks) THEN Sets
  ELSE LET nxt == EScan(P, Sets[k], toks[k+1]) IN
       IF nxt = {} THEN Sets
       ELSE ERun(P, toks, Sets @@ ((k+1) :> CloseSet(P, nxt, Sets, k+1)), k+1)
EarleySets(P, toks) == ERun(P, toks, (0 :> CloseSet(P, { <<1, 0, 0>> }, <<>>, 0)), 0)
\* number of tokens of the longest viable prefix
LVP(sets) == Cardinality(DOMAIN sets) - 1
ExpectedAfter(P, sets, terms) == { t \in terms : EScan(P, sets[LVP(sets)], t) # {} }
EAccepts(P, toks, sets) == LVP(sets) = Len(toks) /\ EScan(P, sets[Len(toks)], "STOP") # {}
=============================================================================
