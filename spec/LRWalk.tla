------------------------------ MODULE LRWalk ------------------------------
(***************************************************************************)
(* Walk of a REAL parglare LR table in lock-step with the canonical LR(1)   *)
(* automaton of the same grammar (DESIGN 3.3 'LRWalk', 7 C05).              *)
(*                                                                         *)
(* A product state is <<real state id, canonical item set reached by the    *)
(* same viable prefix>>.  In every product state TLC evaluates the clauses  *)
(* of C05: nothing valid is missing (shift / goto / accept / reduce of the  *)
(* canonical set are offered by the real cell), no reduction lies outside   *)
(* the LALR(1) lookahead (SLR: outside FOLLOW), no spurious shift; per case *)
(* the termination verdict (state budget derived from |canonical LR(1)|)    *)
(* and the conflict report.  Unresolved tables only (no strategy applied).  *)
(***************************************************************************)
EXTENDS LR1, Integers, TLC, Json, IOUtils

Cases == JsonDeserialize(IOEnv.CASES_FILE)
VARIABLES cid, rs, I, ctx
vars == <<cid, rs, I, ctx>>
C == Cases[cid]
P == C.prods
Terms == { C.terms[i] : i \in DOMAIN C.terms }
NoCtx == [none |-> TRUE]
G == ctx.G

RS(s) == C.real[s+1]
RActs(s, t) == IF t \in DOMAIN RS(s).actions THEN { RS(s).actions[t][i] : i \in DOMAIN RS(s).actions[t] } ELSE {}
RShiftTo(s, t) == { a.to : a \in { b \in RActs(s, t) : b.a = "S" } }
RKernel(s) == { <<RS(s).kernel[i][1] + 1, RS(s).kernel[i][2]>> : i \in DOMAIN RS(s).kernel }

StateClauses ==
  LET nxt == NextSyms(G, I)
      TT == Terms \cup {"STOP"} IN
      (IF \E t \in Terms : t \in nxt /\ RShiftTo(rs, t) = {} THEN {"C05:missing-shift"} ELSE {})
 \cup (IF \E X \in G.nts : X \in nxt /\ X \notin DOMAIN RS(rs).gotos THEN {"C05:missing-goto"} ELSE {})
 \cup (IF "STOP" \in nxt /\ ~(\E a \in RActs(rs, "STOP") : a.a = "A") THEN {"C05:missing-accept"} ELSE {})
 \cup (IF \E t \in TT : \E p \in CanReduce(G, I, t) : [a |-> "R", p |-> p-1] \notin RActs(rs, t)
       THEN {"C05:missing-reduce"} ELSE {})
 \cup (IF \E t \in Terms : RShiftTo(rs, t) # {} /\ t \notin nxt THEN {"C05:spurious-shift"} ELSE {})
 \cup (IF (\E a \in RActs(rs, "STOP") : a.a = "A") /\ "STOP" \notin nxt THEN {"C05:spurious-accept"} ELSE {})
 \cup (IF ~C.slr /\ \E t \in TT : \E a \in RActs(rs, t) : a.a = "R" /\ t \notin LALRLA(G, ctx.all, I, a.p + 1)
       THEN {"C05:reduce-outside-lalr-lookahead"} ELSE {})
 \cup (IF C.slr /\ \E t \in TT : \E a \in RActs(rs, t) : a.a = "R" /\ t \notin ctx.fol[P[a.p + 1].lhs]
       THEN {"C05:reduce-outside-follow"} ELSE {})
 \cup (IF "kernel" \in DOMAIN RS(rs) /\ RKernel(rs) # Kernel(I) THEN {"X:kernel-differs"} ELSE {})

\* the offending (terminal, production) pairs of this product state, for the replay file
Detail ==
  LET TT == Terms \cup {"STOP"} IN
  [ missing |-> { <<t, p-1>> : t \in TT, p \in UserProds(P) } \cap
                { <<t, p-1>> : t \in TT, p \in UNION { CanReduce(G, I, tt) : tt \in TT } } \cap
                { x \in TT \X (0..Len(P)) : (x[2]+1) \in CanReduce(G, I, x[1]) /\ [a |-> "R", p |-> x[2]] \notin RActs(rs, x[1]) },
    outside |-> { x \in TT \X (0..Len(P)) : [a |-> "R", p |-> x[2]] \in RActs(rs, x[1])
                   /\ (IF C.slr THEN x[1] \notin ctx.fol[P[x[2]+1].lhs] ELSE x[1] \notin LALRLA(G, ctx.all, I, x[2]+1)) },
    core |-> Kernel(I) ]

\* ---- per-case clauses, evaluated once in the product's initial state
Cells == { <<s, t>> \in (0..(Len(C.real)-1)) \X (Terms \cup {"STOP"}) : t \in DOMAIN RS(s).actions }
CellActs(c) == RS(c[1]).actions[c[2]]
IsEmptyProd(p) == Len(P[p+1].rhs) = 0
MustReport(c) ==
  LET as == CellActs(c)
      reds == { i \in DOMAIN as : as[i].a = "R" }
  IN Len(as) > 1 /\ ( (\E i \in DOMAIN as : as[i].a \in {"S", "A"})
                      \/ Cardinality({ i \in reds : IsEmptyProd(as[i].p) }) > 1
                      \/ Cardinality({ i \in reds : ~IsEmptyProd(as[i].p) }) > 1 )
Reported == { <<C.conflicts[i][1], C.conflicts[i][2]>> : i \in DOMAIN C.conflicts }
CaseClauses ==
      (IF Len(C.real) > 4 * Cardinality(ctx.all) + 8 THEN {"C05:state-explosion"} ELSE {})
 \cup (IF \E c \in Reported : c \notin Cells \/ Len(CellActs(c)) < 2 THEN {"C05:conflict-reported-on-single-action-cell"} ELSE {})
 \cup (IF \E c \in Cells : MustReport(c) /\ c \notin Reported THEN {"C05:conflict-not-reported"} ELSE {})

FailClauses ==
  IF C.err = "budget" \/ C.err = "Timeout" \/ C.err = "MemoryError" THEN {"C05:construction-diverges"}
  ELSE {"C05:construction-raises"}

Init == cid \in DOMAIN Cases /\ rs = 0 /\ I = {} /\ ctx = NoCtx
Build == /\ ctx = NoCtx /\ UNCHANGED <<cid, rs>>
         /\ LET g == GrammarCtx(P) IN
            /\ ctx' = [G |-> g, all |-> AllLR1(g, Terms), fol |-> Follow(P)]
            /\ I' = IF C.built THEN I0(g) ELSE {}
Step(X) == /\ ctx # NoCtx /\ I # {} /\ X \in NextSyms(G, I) /\ X # "STOP"
           /\ IF X \in G.nts THEN X \in DOMAIN RS(rs).gotos /\ rs' = RS(rs).gotos[X]
              ELSE \E to \in RShiftTo(rs, X) : rs' = to
           /\ I' = Goto(G, I, X)
           /\ UNCHANGED <<cid, ctx>>
Next == Build \/ \E X \in NTs(P) \cup Terms : Step(X)
Spec == Init /\ [][Next]_vars

IsFirst == ctx # NoCtx /\ (~C.built \/ (rs = 0 /\ I = I0(G)))
Report ==
  /\ (ctx # NoCtx /\ C.built /\ I # {} /\ StateClauses # {}) => PrintT(<<"VERDICT", C.cix, StateClauses, rs, Detail>>)
  /\ IsFirst => PrintT(<<"CASE", C.cix, IF C.built THEN CaseClauses ELSE FailClauses,
                         Cardinality(ctx.all), Len(C.real)>>)
=============================================================================
