------------------------------ MODULE Persist ------------------------------
(***************************************************************************)
(* The round-trip half of C12: Load(Save(t)) ~ t and Save(Load(Save(t))) =  *)
(* Save(t).  `before` / `after` are projections of the table object before  *)
(* saving and after loading: per state the action lists (kind, target       *)
(* state, production -- including what a loaded action object carries in    *)
(* its unused fields), gotos, finish flags; the recomputed conflict lists   *)
(* and dynamic marks.                                                       *)
(***************************************************************************)
EXTENDS Naturals, Sequences, TLC, Json, IOUtils
Cases == JsonDeserialize(IOEnv.CASES_FILE)
VARIABLES cid, phase
C == Cases[cid]
Clauses ==
      (IF C.before.acts # C.after.acts THEN {"C12:roundtrip-actions"} ELSE {})
 \cup (IF C.before.gotos # C.after.gotos THEN {"C12:roundtrip-gotos"} ELSE {})
 \cup (IF C.before.finish # C.after.finish THEN {"C12:roundtrip-finish-flags"} ELSE {})
 \cup (IF C.before.sr # C.after.sr \/ C.before.rr # C.after.rr THEN {"C12:roundtrip-conflicts"} ELSE {})
 \cup (IF C.before.dyn # C.after.dyn THEN {"C12:roundtrip-dynamic-marks"} ELSE {})
 \cup (IF ~C.bytes_equal THEN {"C12:second-save-not-byte-identical"} ELSE {})
Init == cid \in DOMAIN Cases /\ phase = 0
Next == phase = 0 /\ phase' = 1 /\ UNCHANGED cid
Spec == Init /\ [][Next]_<<cid, phase>>
Report == phase = 1 => PrintT(<<"VERDICT", C.cix, Clauses>>)
=============================================================================
