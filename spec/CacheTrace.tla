----------------------------- MODULE CacheTrace -----------------------------
(***************************************************************************)
(* Trace validation for Cache.tla (both directions of DESIGN 4): the paths  *)
(* come from TLC's own state graph of Cache (spec -> code: every transition *)
(* is replayed on a real grammar directory) and each replayed path comes    *)
(* back as the trace of what the REAL code replied and left on disk after   *)
(* each step (code -> spec: TLC checks the trace is a behaviour of the      *)
(* machine, state projection compared after every step).  For every         *)
(* completed construction TLC also evaluates the reference `Transparent` on *)
(* the real reply and names the cause from the machine's state.             *)
(***************************************************************************)
EXTENDS Cache, Json, IOUtils, FiniteSets
Cases == JsonDeserialize(IOEnv.CASES_FILE)
VARIABLES cid, l, verdict, nt, dv
tvars == <<vars, cid, l, verdict, nt, dv>>
C == Cases[cid]
Trace == C.trace
e == Trace[l]
Act ==
  \/ (e.act = "DoConstruct" /\ DoConstruct(e.arg))
  \/ (e.act = "DoCrash" /\ DoCrash(e.arg))
  \/ (e.act = "DoCompile" /\ DoCompile(e.arg))
  \/ (e.act = "DoEdit" /\ DoEdit(e.arg))
  \/ (e.act = "DoTouch" /\ DoTouch(e.arg))
Matches == /\ e.reply = Reply(last')
           /\ e.pst = pgc'.st
           /\ (pgc'.st = "complete" => e.writer = pgc'.writer)
\* why a construction was not transparent, read off the machine's state before the step
Cause == IF pgc.st = "complete" /\ UseCache /\ pgc.writer # e.arg THEN "cache-written-under-other-options"
         ELSE IF pgc.st = "prefix" THEN "incomplete-cache-file"
         ELSE IF pgc.st = "complete" /\ UseCache /\ pgc.vers # Vers THEN "stale-cache-accepted"
         ELSE "no-cause-in-the-model"
\* A step whose observation differs from the machine's is recorded once (verdict, dv = its position) and the replay GOES ON from the machine's
\* state: the replies of later constructions are still judged against the reference (round-5 seeded change C12-i: an interrupted rewrite in
\* place left the complete OLD table under a new mtime; the divergence is at the crash, the harm at the next construction).
TStep ==
  /\ verdict \in {"ok", "trace-diverges-from-machine"} /\ l <= Len(Trace)
  /\ Act
  /\ l' = l + 1 /\ UNCHANGED cid
  /\ verdict' = IF Matches THEN verdict ELSE "trace-diverges-from-machine"
  /\ dv' = IF ~Matches /\ dv = 0 THEN l ELSE dv
  /\ nt' = IF e.act = "DoConstruct" /\ e.reply # "table-fresh" THEN nt \cup { <<l, e.reply, IF dv = 0 THEN Cause ELSE "after-a-step-the-machine-does-not-explain">> } ELSE nt
\* an action the machine does not even enable (e.g. a crash while the cache is used) ends the case
TStuck == verdict \in {"ok", "trace-diverges-from-machine"} /\ l <= Len(Trace) /\ ~ENABLED Act /\ verdict' = "action-not-enabled-in-machine"
          /\ dv' = IF dv = 0 THEN l ELSE dv /\ UNCHANGED <<vars, cid, l, nt>>
TInit == Init /\ cid \in DOMAIN Cases /\ l = 1 /\ verdict = "ok" /\ nt = {} /\ dv = 0
TSpec == TInit /\ [][TStep \/ TStuck]_tvars
\* reported once per case: at the end of the trace, or where the machine got stuck; dv = position of the first step it does not explain (0: none)
Report == (verdict = "action-not-enabled-in-machine" \/ l > Len(Trace)) => PrintT(<<"VERDICT", C.cix, verdict, dv, nt>>)
=============================================================================
