----------------------------- MODULE CacheTrace -----------------------------
(***************************************************************************)
(* Trace validation for Cache.tla (both directions of DESIGN 4): the paths  *)
(* come from TLC's own state graph of Cache (spec -> code: every transition *)
(* is replayed on a real grammar directory) and each replayed path comes    *)
(* back as the trace of what the REAL code replied and left on disk after   *)
(* each step (code -> spec: TLC checks the trace is a behaviour of the      *)
(* machine, state projection compared after every step).  For every         *)
(* completed construction TLC also evaluates the reference `Transparent` on *)
(* the real reply and names the cause from the machine's state.             *)
(***************************************************************************)
EXTENDS Cache, Json, IOUtils, FiniteSets
Cases == JsonDeserialize(IOEnv.CASES_FILE)
VARIABLES cid, l, verdict, nt
tvars == <<vars, cid, l, verdict, nt>>
C == Cases[cid]
Trace == C.trace
e == Trace[l]
Act ==
  \/ (e.act = "DoConstruct" /\ DoConstruct(e.arg))
  \/ (e.act = "DoCrash" /\ DoCrash(e.arg))
  \/ (e.act = "DoCompile" /\ DoCompile(e.arg))
  \/ (e.act = "DoEdit" /\ DoEdit(e.arg))
  \/ (e.act = "DoTouch" /\ DoTouch(e.arg))
Matches == /\ e.reply = Reply(last')
           /\ e.pst = pgc'.st
           /\ (pgc'.st = "complete" => e.writer = pgc'.writer)
\* why a construction was not transparent, read off the machine's state before the step
Cause == IF pgc.st = "complete" /\ UseCache /\ pgc.writer # e.arg THEN "cache-written-under-other-options"
         ELSE IF pgc.st = "prefix" THEN "incomplete-cache-file"
         ELSE IF pgc.st = "complete" /\ UseCache /\ pgc.vers # Vers THEN "stale-cache-accepted"
         ELSE "no-cause-in-the-model"
TStep ==
  /\ verdict = "ok" /\ l <= Len(Trace)
  /\ Act
  /\ l' = l + 1 /\ UNCHANGED cid
  /\ verdict' = IF Matches THEN "ok" ELSE "trace-diverges-from-machine"
  /\ nt' = IF e.act = "DoConstruct" /\ e.reply # "table-fresh" THEN nt \cup { <<l, e.reply, Cause>> } ELSE nt
\* an action the machine does not even enable (e.g. a crash while the cache is used) ends the case
TStuck == verdict = "ok" /\ l <= Len(Trace) /\ ~ENABLED Act /\ verdict' = "action-not-enabled-in-machine" /\ UNCHANGED <<vars, cid, l, nt>>
TInit == Init /\ cid \in DOMAIN Cases /\ l = 1 /\ verdict = "ok" /\ nt = {}
TSpec == TInit /\ [][TStep \/ TStuck]_tvars
Report == (verdict # "ok" \/ l > Len(Trace)) => PrintT(<<"VERDICT", C.cix, verdict, l, nt>>)
=============================================================================
