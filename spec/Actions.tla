------------------------------ MODULE Actions ------------------------------
(***************************************************************************)
(* Symbolic evaluation of semantic actions over a derivation tree           *)
(* (DESIGN 3.9 Actions, 7 C09, C13).  User actions are uninterpreted: the   *)
(* action of rule X, alternative i, applied to sub-results `args` with      *)
(* named matches `kw` at span (s, e) is the TERM                            *)
(*      <<"c", X, i, <<"l", args>>, kw, s, e>>       (i = -1: one action     *)
(* for the whole rule).  Values are tagged tuples:                          *)
(*   <<"s", text>>  <<"n">> (None)  <<"b", bool>>  <<"l", <<items>>>>        *)
(*   <<"tc", T, v>> terminal action   <<"o", X, kw, s, e>> default object    *)
(*   <<"i", 0>>  an integer (constant actions: a user action that returns a   *)
(*   falsy value 0 / False / '' / [] whatever its arguments are -- such a     *)
(*   value is a matched element like any other, only None means "no match")  *)
(* The documented meaning of the default (no action: single child unpacked, *)
(* otherwise the list of children) and of the built-in actions behind       *)
(* + * ? and separators is defined here, independently of actions.py.       *)
(*                                                                         *)
(* Parameters (records, supplied by the case):                              *)
(*   P      productions, P[p+1] = [lhs, rhs]                                *)
(*   akind  rule name -> "none" | "single" | "list" | "obj" | "collect" |   *)
(*          "collect_sep" | "optional" | "zero" | "k0" | "kF" | "kS" | "kL" *)
(*          | "pass_none" | "pass_nochange" | "pass_empty" | "pass_single"  *)
(*          | "pass_inner" | "kN" (stateful counter)                        *)
(*          (constant actions; also allowed for TERMINAL names)             *)
(*   assign p+1 -> sequence of [name, op, idx] sorted by name (idx 1-based) *)
(*   tact   set of terminals that have a (recording) action                 *)
(***************************************************************************)
EXTENDS Naturals, Sequences, FiniteSets

AltOf(P, p) == Cardinality({ q \in 1..p : P[q].lhs = P[p+1].lhs })   \* zero-based index among the rule's alternatives
Truthy(v) == ~(v = <<"n">> \/ v = <<"l", <<>>>> \/ v = <<"s", "">> \/ v = <<"b", FALSE>> \/ v = <<"i", 0>>)
ConstKinds == {"k0", "kF", "kS", "kL"}
Const(kind) == CASE kind = "k0" -> <<"i", 0>> [] kind = "kF" -> <<"b", FALSE>> [] kind = "kS" -> <<"s", "">> [] OTHER -> <<"l", <<>>>>
KW(assign, p, sub) ==
  [ k \in DOMAIN assign[p+1] |->
      LET a == assign[p+1][k] IN <<a.name, IF a.op = "=" THEN sub[a.idx] ELSE <<"b", Truthy(sub[a.idx])>>>> ]
SpanS(n) == IF n.s = n.e THEN 0 - 1 ELSE n.s
SpanE(n) == IF n.s = n.e THEN 0 - 1 ELSE n.e

\* A STATEFUL action ("kN": returns how many such actions have been called so far, itself included).  The actions of a tree are called in
\* the order the LR parser reduces: bottom up, left to right (a terminal's action when the token is shifted).  `off` = number of kN calls
\* that precede the subtree n in that order; the value of a kN node is off + (the kN calls inside it) + 1.
RECURSIVE CountN(_, _, _)
RECURSIVE CountNSeq(_, _, _, _)
CountNSeq(P, akind, cs, j) == IF j = 0 THEN 0 ELSE CountN(P, akind, cs[j]) + CountNSeq(P, akind, cs, j - 1)
CountN(P, akind, n) ==
  IF n.k = "T" THEN (IF n.t \in DOMAIN akind /\ akind[n.t] = "kN" THEN 1 ELSE 0)
  ELSE (IF akind[P[n.p+1].lhs] = "kN" THEN 1 ELSE 0) + CountNSeq(P, akind, n.c, Len(n.c))

RECURSIVE EvalO(_, _, _, _, _, _)
EvalO(P, akind, assign, tact, n, off) ==
  IF n.k = "T" THEN (IF n.t \in DOMAIN akind /\ akind[n.t] \in ConstKinds THEN Const(akind[n.t])
                     ELSE IF n.t \in DOMAIN akind /\ akind[n.t] = "kN" THEN <<"i", off + 1>>
                     ELSE IF n.t \in tact THEN <<"tc", n.t, <<"s", n.vs>>>> ELSE <<"s", n.vs>>)
  ELSE LET X == P[n.p+1].lhs
           sub == [ i \in DOMAIN n.c |-> EvalO(P, akind, assign, tact, n.c[i], off + CountNSeq(P, akind, n.c, i - 1)) ]
           alt == AltOf(P, n.p)
           kind == akind[X]
       IN CASE kind \in ConstKinds -> Const(kind)
            [] kind = "kN"            -> <<"i", off + CountNSeq(P, akind, n.c, Len(n.c)) + 1>>
            \* built-in actions named in the grammar (docs/actions.md)
            [] kind = "pass_none"     -> <<"n">>
            [] kind = "pass_nochange" -> <<"l", sub>>
            [] kind = "pass_empty"    -> <<"l", <<>>>>
            [] kind = "pass_single"   -> sub[1]
            [] kind = "pass_inner"    -> IF Len(sub) = 3 THEN sub[2] ELSE <<"l", IF Len(sub) <= 2 THEN <<>> ELSE SubSeq(sub, 2, Len(sub) - 1)>>
            [] kind = "none"    -> IF Len(sub) = 1 THEN sub[1] ELSE <<"l", sub>>
            [] kind = "single"  -> <<"c", X, 0 - 1, <<"l", sub>>, KW(assign, n.p, sub), SpanS(n), SpanE(n)>>
            [] kind = "list"    -> <<"c", X, alt, <<"l", sub>>, KW(assign, n.p, sub), SpanS(n), SpanE(n)>>
            [] kind = "obj"     -> <<"o", X, KW(assign, n.p, sub), SpanS(n), SpanE(n)>>
            [] kind = "collect" -> IF Len(sub) = 2 THEN <<"l", Append(sub[1][2], sub[2])>> ELSE <<"l", sub>>
            [] kind = "collect_sep" -> IF Len(sub) = 3 THEN <<"l", Append(sub[1][2], sub[3])>> ELSE <<"l", sub>>
            [] kind = "optional" -> IF Len(sub) = 1 THEN sub[1] ELSE <<"n">>
            [] kind = "zero"    -> IF Len(sub) = 1 THEN sub[1] ELSE <<"l", <<>>>>
            [] OTHER            -> <<"?", kind>>
Eval(P, akind, assign, tact, n) == EvalO(P, akind, assign, tact, n, 0)
=============================================================================
