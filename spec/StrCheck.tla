------------------------------ MODULE StrCheck ------------------------------
(***************************************************************************)
(* C19 conformance (code -> spec): a text realised as an inline string and  *)
(* as a declared terminal, with and without a KEYWORD rule, with and        *)
(* without ignore_case.  Recorded: whether each grammar builds, the lengths *)
(* the REAL recognizers match at every position of every probe input, and   *)
(* whether the sentence text + "!!" parses.                                 *)
(***************************************************************************)
EXTENDS StrTerm, TLC, Json, IOUtils
Cases == JsonDeserialize(IOEnv.CASES_FILE)
VARIABLES cid, phase
C == Cases[cid]
T == C.text
Want(In, p) == MatchLen(T, In, p, C.ic, C.iskw)
Differs(form) == \E k \in DOMAIN C.inputs : \E p \in 0..Len(C.inputs[k].s) : form.match[k][p+1] # Want(C.inputs[k].s, p)
Facts == (IF HasDot(T) THEN {"text-has-dot"} ELSE {}) \cup (IF HasCtl(T) THEN {"text-has-newline-or-tab"} ELSE {})
         \cup (IF C.iskw /\ NonWordEdge(T) THEN {"keyword-text-with-non-word-edge"} ELSE {})
         \cup (IF C.collides THEN {"text-equals-a-rule-or-reserved-name"} ELSE {})
Clauses ==
      (IF ~C.inline.built THEN {"C19:inline-form-does-not-build"} ELSE {})
 \cup (IF ~C.declared.built THEN {"C19:declared-form-does-not-build"} ELSE {})
 \cup (IF C.inline.built /\ Differs(C.inline) THEN {"C19:inline-match-differs-from-literal-text"} ELSE {})
 \cup (IF C.declared.built /\ Differs(C.declared) THEN {"C19:declared-match-differs-from-literal-text"} ELSE {})
 \cup (IF C.inline.built /\ C.declared.built /\ C.inline.match # C.declared.match THEN {"C19:inline-and-declared-differ"} ELSE {})
 \cup (IF C.inline.built /\ ~C.inline.sentence THEN {"C19:inline-sentence-rejected"} ELSE {})
 \cup (IF C.declared.built /\ ~C.declared.sentence THEN {"C19:declared-sentence-rejected"} ELSE {})
 \cup (IF C.hasimported /\ C.declared.built /\ ~C.imported.built THEN {"C19:declared-in-imported-file-does-not-build"} ELSE {})
 \cup (IF C.hasimported /\ C.imported.built /\ C.declared.built /\ C.imported.match # C.declared.match THEN {"C19:declared-in-imported-file-matches-differently"} ELSE {})
 \cup (IF C.hasimported /\ C.imported.built /\ C.declared.built /\ C.imported.sentence # C.declared.sentence THEN {"C19:declared-in-imported-file-sentence-differs"} ELSE {})
 \* the same text in a grammar that ALSO uses the text differing from it in case only (case-sensitive grammars): still its own terminal
 \cup (IF C.hastwin /\ C.inline.built /\ ~C.twin.built THEN {"C19:text-next-to-its-case-twin-does-not-build"} ELSE {})
 \cup (IF C.hastwin /\ C.inline.built /\ C.twin.built /\ C.twin.match # C.inline.match THEN {"C19:text-next-to-its-case-twin-matches-differently"} ELSE {})
 \cup (IF C.hastwin /\ C.inline.built /\ C.twin.built /\ C.twin.sentence # C.inline.sentence THEN {"C19:text-next-to-its-case-twin-sentence-differs"} ELSE {})
 \cup (IF C.inline.built /\ C.inline.iskw # C.iskw THEN {"C19:inline-keyword-classification"} ELSE {})
 \cup (IF C.declared.built /\ C.declared.iskw # C.iskw THEN {"C19:declared-keyword-classification"} ELSE {})
Init == cid \in DOMAIN Cases /\ phase = 0
Next == phase = 0 /\ phase' = 1 /\ UNCHANGED cid
Spec == Init /\ [][Next]_<<cid, phase>>
Report == phase = 1 => PrintT(<<"VERDICT", C.cix, Clauses, Facts>>)
=============================================================================
