----------------------------- MODULE SugarCheck -----------------------------
(***************************************************************************)
(* C13: a sugared grammar means its documented expansion (code -> spec).    *)
(* Per grammar: the real grammar's productions vs Desugar!Expand (group- and *)
(* greedy-free grammars: equal as sets, which also says each helper rule     *)
(* exists once).  Per input: real acceptance (GLR; LR where it constructs)   *)
(* vs CFG sentencehood over the EXPANSION computed here; every result of     *)
(* every forest tree vs Actions!Eval with the documented built-in meaning;   *)
(* greedy variant vs non-greedy variant.                                     *)
(***************************************************************************)
EXTENDS Desugar, CFG, Actions, TLC, Json, IOUtils
Cases == JsonDeserialize(IOEnv.CASES_FILE)
VARIABLES cid, iid, phase
vars == <<cid, iid, phase>>
C == Cases[cid]
RealSet == { [lhs |-> C.prods[i].lhs, rhs |-> C.prods[i].rhs] : i \in 2..Len(C.prods) }
GrammarClauses ==
  IF ~C.built THEN {"C13:grammar-does-not-build"}
  ELSE IF C.xgrammar.present /\ C.xgrammar.lr_built # C.xgrammar.lrx_built THEN {"C13:lr-construction-differs-from-documented-expansion-grammar"}
  ELSE IF ~HasGroup(C.ast) /\ ~AnyGreedy(C.ast) /\ RealSet # Expand(C.ast) THEN {"C13:productions-differ-from-documented-expansion"}
  ELSE {}

In == C.inputs[iid]
\* how much the gi-th item of the start rule's alternative consumed, read off a result <<"l", <<item results>>>>
\* (a rule with a single item is unpacked: the result IS the item's result)
ItemOf(r, gi) == IF r[1] = "l" /\ Len(r[2]) >= gi THEN r[2][gi] ELSE r
Amount(r, gi) == LET v == ItemOf(r, gi) IN IF v[1] = "l" THEN Len(v[2]) ELSE IF v = <<"n">> THEN 0 ELSE 1
Lin(toks) == [nodes |-> 0..Len(toks), edges |-> { <<toks[i], i-1, i>> : i \in DOMAIN toks }, s0 |-> 0, n |-> Len(toks)]
InputClauses ==
  LET P == ExpandSeq(C.ast)
      L == Lin(In.toks)
      sentence == <<StartOf(P), 0, Len(In.toks)>> \in Spans(P, L)
      results == { In.glr.results[i] : i \in DOMAIN In.glr.results }
      evals == { Eval(C.prods, C.akind, C.assign, {}, In.glr.trees[i]) : i \in DOMAIN In.glr.trees }
  IN  (IF In.glr.ok # sentence THEN {"C13:language-differs-from-expansion"} ELSE {})
 \cup (IF In.lr.built /\ In.lr.ok /\ ~sentence THEN {"C13:lr-accepts-outside-expansion"} ELSE {})
 \cup (IF In.glr.ok /\ In.glr.complete /\ \E i \in DOMAIN In.glr.trees :
             In.glr.results[i] # Eval(C.prods, C.akind, C.assign, {}, In.glr.trees[i])
       THEN {"C13:result-differs-from-documented-meaning"} ELSE {})
 \cup (IF In.lr.built /\ In.lr.ok /\ In.glr.ok /\ In.glr.complete /\ In.lr.result \notin evals THEN {"C13:lr-result-not-a-documented-result"} ELSE {})
 \cup (IF In.x.lr # In.x.lrx THEN {"C13:lr-language-differs-from-documented-expansion-grammar"} ELSE {})
 \cup (IF In.x.ps # In.x.psx THEN {"C13:glr-prefer-shifts-language-differs-from-documented-expansion-grammar"} ELSE {})
 \cup (IF C.greedy /\ In.glr.ok # In.plain.ok THEN {"C13:greedy-changes-language"} ELSE {})
 \cup (IF C.greedy /\ In.glr.ok /\ In.glr.complete /\ In.plain.complete /\ ~(results \subseteq { In.plain.results[i] : i \in DOMAIN In.plain.results })
       THEN {"C13:greedy-result-not-among-non-greedy-results"} ELSE {})

 \cup (IF C.greedy /\ C.gi > 0 /\ In.glr.ok /\ In.glr.complete /\ Len(In.glr.results) # 1 THEN {"C13:greedy-not-a-single-tree"} ELSE {})
 \cup (IF C.greedy /\ C.gi > 0 /\ In.glr.ok /\ In.glr.complete /\ In.plain.complete /\ Len(In.glr.results) = 1
          /\ \E i \in DOMAIN In.plain.results : Amount(In.plain.results[i], C.gi) > Amount(In.glr.results[1], C.gi)
       THEN {"C13:greedy-repetition-not-maximal"} ELSE {})

Init == cid \in DOMAIN Cases /\ iid = 0 /\ phase = 0
Pick == iid = 0 /\ C.built /\ \E i \in DOMAIN C.inputs : iid' = i /\ UNCHANGED <<cid, phase>>
Chk == iid # 0 /\ phase = 0 /\ phase' = 1 /\ UNCHANGED <<cid, iid>>
Spec == Init /\ [][Pick \/ Chk]_vars
Report ==
  /\ phase = 1 => PrintT(<<"VERDICT", C.cix, iid, InputClauses>>)
  /\ (iid = 0 /\ phase = 0) => PrintT(<<"CASE", C.cix, GrammarClauses>>)
=============================================================================
