SPECIFICATION TSpec
CONSTANTS Files = {"root", "imp"}
  Root = "root"
  Kinds = {"lr", "glr"}
  ImportsCompared = TRUE
  PrefixTolerated = TRUE
  MaxSteps = 10
INVARIANT Report
CHECK_DEADLOCK FALSE
