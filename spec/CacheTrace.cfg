SPECIFICATION TSpec
CONSTANTS Files = {"root", "imp", "leaf"}
  Opts = {"lr", "glr", "slr"}
  Unresolved = {"glr", "cli", "clips"}
  LRKinds = {"lr", "slr"}
  MaxSteps = 10
INVARIANT Report
CHECK_DEADLOCK FALSE
