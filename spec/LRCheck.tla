------------------------------ MODULE LRCheck ------------------------------
(***************************************************************************)
(* Final-state conformance of REAL Parser (LR) runs, side by side with the  *)
(* GLR run on the same input, against the reference (code -> spec;          *)
(* DESIGN 3.4 invariants SoundAccept / Exact / ErrorAtLVP / NodeSpans,      *)
(* 7 C04, C08, C10, C17).  One case = one input handed to one Parser        *)
(* (build_tree=True) and one GLRParser built from the same grammar.         *)
(*                                                                         *)
(* Trees are nested records  [k |-> "N", p, s, e, l, c |-> <<kids>>]        *)
(*                            [k |-> "T", t, s, e, l, v]                    *)
(* (l = layout_content, v = value, both as code points).                    *)
(***************************************************************************)
EXTENDS CFG, Earley, Integers, TLC, Json, IOUtils

Cases == JsonDeserialize(IOEnv.CASES_FILE)
VARIABLES cid, phase, verdict
vars == <<cid, phase, verdict>>

C == Cases[cid]
P == C.prods
N == C.n
In == C.input
Terms == { C.terms[i] : i \in DOMAIN C.terms }
Skip(p) == C.skip[p+1]
Nodes == { Skip(p) : p \in 0..N }
MLen(t, p) == C.match[t][p+1]
Edges == { <<x[1], x[2], Skip(x[2] + MLen(x[1], x[2]))>> : x \in { y \in Terms \X Nodes : MLen(y[1], y[2]) > 0 } }
L == [nodes |-> Nodes, edges |-> Edges, s0 |-> Skip(0), n |-> N]
Roots == IF C.consume THEN RootsConsume(P, L) ELSE RootsPrefix(P, L)
Start == StartOf(P)

\* ---------------------------------------------------------------- the real LR table: deterministic?
Tbl == C.tbl
Deterministic == \A i \in DOMAIN Tbl : \A t \in DOMAIN Tbl[i].actions : Len(Tbl[i].actions[t]) = 1
\* exactness is claimed for deterministic tables with no strategy applied and no priorities/assoc (C04)
Exact == Deterministic /\ ~C.ps /\ ~C.pse /\ ~C.prio
\* The class of finding D47: the table holds a CYCLE OF EMPTY REDUCTIONS on some lookahead t -- a state whose (first, i.e. taken) action on t
\* is the reduction of an empty production A, whose goto on A is a state of the same kind, and so on back to a state already seen.  An LR
\* parser that reaches such a state with t ahead pushes A's for ever.  (A canonical LR(1) lookahead never allows this; SLR FOLLOW sets do.)
RECURSIVE EmptyWalk(_, _, _)
EmptyWalk(q, t, k) ==
  IF k = 0 THEN TRUE
  ELSE IF t \notin DOMAIN Tbl[q].actions THEN FALSE
  ELSE LET as == Tbl[q].actions[t]
           \* the action the LR loop takes: the first one, but an empty reduction gives way to a second action if there is one (parser.py)
           a == IF Len(as) > 1 /\ as[1].a = "R" /\ P[as[1].p+1].rhs = <<>> THEN as[2] ELSE as[1] IN
       IF a.a # "R" THEN FALSE
       ELSE IF P[a.p+1].rhs # <<>> \/ P[a.p+1].lhs \notin DOMAIN Tbl[q].gotos THEN FALSE
       ELSE EmptyWalk(Tbl[q].gotos[P[a.p+1].lhs] + 1, t, k - 1)
EmptyReduceCycle == \E q \in DOMAIN Tbl : \E t \in DOMAIN Tbl[q].actions : EmptyWalk(q, t, Len(Tbl) + 1)

\* ---------------------------------------------------------------- trees
IsT(n) == n.k = "T"
HasTree(r) == r.k # "X"
SymOf(n) == IF IsT(n) THEN n.t ELSE P[n.p+1].lhs
Slice(a, b) == SubSeq(In, a+1, b)
InR(x) == x \in 0..N

RECURSIVE Leaves(_)
RECURSIVE LeavesOfSeq(_, _)
LeavesOfSeq(cs, i) == IF i > Len(cs) THEN <<>> ELSE Leaves(cs[i]) \o LeavesOfSeq(cs, i+1)
Leaves(n) == IF IsT(n) THEN <<n>> ELSE LeavesOfSeq(n.c, 1)

\* structural validity (C01/C04): productions applied to children in order
RECURSIVE Struct(_)
RECURSIVE StructSeq(_, _)
StructSeq(cs, i) == IF i > Len(cs) THEN "ok" ELSE LET r == Struct(cs[i]) IN IF r # "ok" THEN r ELSE StructSeq(cs, i+1)
Struct(n) ==
  IF IsT(n) THEN (IF n.t \in Terms THEN "ok" ELSE "unknown-terminal")
  ELSE IF (n.p + 1) \notin UserProds(P) THEN "unknown-production"
  ELSE IF Len(n.c) # Len(P[n.p+1].rhs) THEN "arity"
  ELSE IF \E i \in DOMAIN n.c : SymOf(n.c[i]) # P[n.p+1].rhs[i] THEN "child-symbol"
  ELSE StructSeq(n.c, 1)

\* the leaves are the tokens of a lattice path from the start node (C01/C04/C17)
LeafTokens(ls, endOK(_)) ==
  IF \E i \in DOMAIN ls : ~(InR(ls[i].s) /\ InR(ls[i].e) /\ ls[i].s < ls[i].e) THEN "leaf-span"
  ELSE IF \E i \in DOMAIN ls : MLen(ls[i].t, ls[i].s) # ls[i].e - ls[i].s THEN "leaf-not-a-match"
  ELSE IF \E i \in DOMAIN ls : ls[i].v # Slice(ls[i].s, ls[i].e) THEN "leaf-value"
  ELSE IF ls = <<>> THEN (IF endOK(L.s0) THEN "ok" ELSE "input-not-consumed")
  ELSE IF ls[1].s # L.s0 THEN "first-leaf-start"
  ELSE IF \E i \in 1..(Len(ls)-1) : ls[i+1].s # Skip(ls[i].e) THEN "leaf-gap"
  ELSE IF ~endOK(Skip(ls[Len(ls)].e)) THEN "input-not-consumed"
  ELSE "ok"

EndOK(q) == IF C.consume THEN q = N ELSE q \in Nodes
Derivation(t) ==
  LET r == Struct(t) IN
  IF r # "ok" THEN r
  ELSE IF SymOf(t) # Start THEN "root-not-start"
  ELSE LeafTokens(Leaves(t), EndOK)

\* positions and losslessness (C08)
RECURSIVE PosCheck(_)
RECURSIVE PosCheckSeq(_, _)
PosCheckSeq(cs, i) == IF i > Len(cs) THEN "ok" ELSE LET r == PosCheck(cs[i]) IN IF r # "ok" THEN r ELSE PosCheckSeq(cs, i+1)
PosCheck(n) ==
  IF ~(InR(n.s) /\ InR(n.e) /\ n.s <= n.e) THEN "span-out-of-bounds"
  ELSE IF IsT(n) THEN (IF n.v # Slice(n.s, n.e) THEN "leaf-value" ELSE "ok")
  ELSE IF \E i \in DOMAIN n.c : ~(InR(n.c[i].s) /\ InR(n.c[i].e)) THEN "span-out-of-bounds"
  ELSE IF \E i \in DOMAIN n.c : ~(n.s <= n.c[i].s /\ n.c[i].e <= n.e) THEN "child-outside-parent"
  ELSE IF \E i \in 1..(Len(n.c)-1) : n.c[i].e > n.c[i+1].s THEN "siblings-overlap-or-disorder"
  ELSE PosCheckSeq(n.c, 1)
\* the class of finding D37: the only children sticking out of their parent are LAST children that end after the layout following the
\* parent's end (a trailing empty match, which GLR places after the layout; the parent's link took the span of another alternative)
RECURSIVE OnlyTrailingLayoutExcess(_)
OnlyTrailingLayoutExcess(n) ==
  IF IsT(n) THEN TRUE
  ELSE /\ \A i \in DOMAIN n.c : (n.s <= n.c[i].s /\ n.c[i].e <= n.e)
                                \/ (i = Len(n.c) /\ n.s <= n.c[i].s /\ InR(n.e) /\ InR(n.c[i].e) /\ n.c[i].e > n.e /\ Skip(n.e) = n.c[i].e)
       /\ \A i \in DOMAIN n.c : OnlyTrailingLayoutExcess(n.c[i])
RECURSIVE Concat(_, _)
Concat(ls, i) == IF i > Len(ls) THEN <<>> ELSE ls[i].l \o ls[i].v \o Concat(ls, i+1)
Lossless(t) ==
  LET ls == Leaves(t) IN
  IF ls = <<>> THEN "ok"
  ELSE IF \E i \in DOMAIN ls : ~(InR(ls[i].s) /\ InR(ls[i].e)) THEN "span-out-of-bounds"
  ELSE IF Concat(ls, 1) # Slice(0, ls[Len(ls)].e) THEN "not-lossless"
  ELSE "ok"
Positions(t) == LET r == PosCheck(t) IN IF r # "ok" THEN r ELSE Lossless(t)

\* what two trees must share to be "equal" (C04): symbols, productions, token spans and values
\* (LR places an empty match before the layout that follows it, GLR after it: both satisfy C08)
RECURSIVE Shape(_)
Shape(n) == IF IsT(n) THEN <<"T", n.t, n.s, n.e, n.v>>
            ELSE <<"N", n.p, [ i \in DOMAIN n.c |-> Shape(n.c[i]) ]>>

\* ---------------------------------------------------------------- the token path (no lexical overlap) and Earley
MatchingAt(p) == { t \in Terms : MLen(t, p) > 0 }
Linear == \A p \in Nodes : Cardinality(MatchingAt(p)) <= 1
RECURSIVE PathFrom(_)
\* <<tokens, nodes>> of the unique lattice path from node p
PathFrom(p) ==
  IF MatchingAt(p) = {} THEN <<<<>>, <<p>>>>
  ELSE LET t == CHOOSE x \in MatchingAt(p) : TRUE
           rest == PathFrom(Skip(p + MLen(t, p)))
       IN <<<<t>> \o rest[1], <<p>> \o rest[2]>>

\* for a list (non-string) input the documented convention is line 1, column = position
LineOf(pos) == IF C.listinput THEN 1 ELSE 1 + Cardinality({ i \in 1..pos : In[i] = 10 })
ColOf(pos) == IF C.listinput THEN pos ELSE
              LET nls == { i \in 1..pos : In[i] = 10 } IN
              pos - (IF nls = {} THEN 0 ELSE CHOOSE m \in nls : \A j \in nls : j <= m)

ErrClauses(who, r, errNode, expected, checkExpected) ==
  IF r.kind # "syntax" THEN { "C10:" \o who \o ":not-a-syntaxerror" }
  ELSE (IF r.exc.pos # errNode THEN { "C10:" \o who \o ":position" } ELSE {})
  \cup (IF r.exc.pos \in 0..N /\ (r.exc.line # LineOf(r.exc.pos) \/ r.exc.col # ColOf(r.exc.pos))
        THEN { "C10:" \o who \o ":line-column" } ELSE {})
  \cup (IF ~r.exc.str_ok THEN { "C10:" \o who \o ":rendering-raises" } ELSE {})
  \cup (IF r.exc.str_ok /\ r.exc.pos \in 0..N /\ (r.exc.eofmsg # (r.exc.pos = N)) THEN { "C10:" \o who \o ":end-of-file-message" } ELSE {})
  \cup (IF checkExpected /\ ({ r.exc.exp[i] : i \in DOMAIN r.exc.exp } \ {"STOP"}) # expected
        THEN { "C10:" \o who \o ":symbols-expected" } ELSE {})

Clauses(RF) ==
  LET sentence == (Roots \cap RF.all) # {}
      lr == C.lr
      glr == C.glr
      lrTree == lr.kind = "tree"
      path == PathFrom(L.s0)
      sets == EarleySets(P, path[1])
      lvp == LVP(sets)
      errNode == path[2][lvp + 1]
      expected == ExpectedAfter(P, sets, Terms)
      lrDeriv == IF lrTree THEN Derivation(lr.tree) ELSE "ok"
      refTotal == IF RefInfinite(P, RF) THEN -1 ELSE SumOverRoots(P, RF, Roots, RefCounts(P, RF))
  IN
      \* ---- C04 soundness (always) -- consume_input=False cases are what C17 reads
      (IF C.built /\ lrTree /\ ~sentence THEN {"C04:accepts-nonsentence"} ELSE {})
 \cup (IF C.built /\ lrTree /\ lrDeriv # "ok" THEN {"C04:invalid-tree:" \o lrDeriv} ELSE {})
 \* (C04 promises that a deterministic unresolved table accepts every sentence; that a REJECTION terminates is C10's statement, below)
 \cup (IF C.built /\ Exact /\ C.consume /\ sentence /\ lr.kind = "timeout" THEN {"C04:does-not-terminate"} ELSE {})
      \* ---- C04 exactness (deterministic unresolved table)
 \cup (IF C.built /\ Exact /\ C.consume /\ sentence /\ ~lrTree THEN {"C04:rejects-sentence"} ELSE {})
 \cup (IF C.built /\ Exact /\ C.consume /\ (refTotal > 1 \/ refTotal = -1) THEN {"C04:deterministic-but-ambiguous"} ELSE {})
 \cup (IF C.built /\ Exact /\ C.consume /\ sentence /\ (glr.kind # "forest" \/ glr.n # 1) THEN {"C04:glr-not-exactly-one-tree"} ELSE {})
 \cup (IF C.built /\ Exact /\ C.consume /\ sentence /\ lrTree /\ glr.kind = "forest" /\ glr.n = 1 /\ Len(glr.trees) = 1
          /\ Struct(lr.tree) = "ok" /\ Struct(glr.trees[1]) = "ok" /\ Shape(glr.trees[1]) # Shape(lr.tree)
       THEN {"C04:glr-tree-differs"} ELSE {})
      \* ---- C08 positions and losslessness
 \cup (IF C.built /\ lrTree /\ Struct(lr.tree) = "ok" /\ Positions(lr.tree) # "ok" THEN {"C08:lr:" \o Positions(lr.tree)} ELSE {})
 \cup (IF C.built /\ lrTree /\ Struct(lr.tree) = "ok" /\ Positions(lr.tree) = "ok" /\ lrDeriv \in {"first-leaf-start", "leaf-gap", "leaf-value", "leaf-span"}
       THEN {"C08:lr:" \o lrDeriv} ELSE {})
 \cup UNION { IF Struct(glr.trees[i]) = "ok" /\ Positions(glr.trees[i]) # "ok" THEN {"C08:glr:" \o Positions(glr.trees[i])} ELSE {} : i \in DOMAIN glr.trees }
 \cup UNION { IF Struct(glr.trees[i]) = "ok" /\ Positions(glr.trees[i]) = "ok"
                 /\ LeafTokens(Leaves(glr.trees[i]), EndOK) \in {"first-leaf-start", "leaf-gap", "leaf-value", "leaf-span"}
              THEN {"C08:glr:" \o LeafTokens(Leaves(glr.trees[i]), EndOK)} ELSE {} : i \in DOMAIN glr.trees }
      \* ---- C10 rejections (only where the lattice is a single token path)
 \cup (IF C.consume /\ ~sentence /\ Linear THEN ErrClauses("glr", glr, errNode, expected, TRUE) ELSE {})
 \cup (IF C.consume /\ ~sentence /\ Linear /\ C.built /\ Exact THEN ErrClauses("lr", lr, errNode, expected, FALSE) ELSE {})
 \cup (IF C.consume /\ ~sentence /\ C.built /\ ~Exact /\ lr.kind \notin {"syntax", "disamb", "tree", "timeout"} THEN {"C10:lr:other-exception"} ELSE {})
 \cup (IF C.consume /\ ~sentence /\ C.built /\ lr.kind = "timeout" THEN {"C10:lr:does-not-terminate"} ELSE {})
 \* trees built by parsers constructed with debug=True are trees like any other: the same position and losslessness clauses
 \cup (IF C.hasdbg /\ C.lrdbg.kind = "tree" /\ Struct(C.lrdbg.tree) = "ok" /\ Positions(C.lrdbg.tree) # "ok" THEN {"C08:lr(debug=True):" \o Positions(C.lrdbg.tree)} ELSE {})
 \cup UNION { IF C.hasdbg /\ Struct(C.glrdbg.trees[i]) = "ok" /\ Positions(C.glrdbg.trees[i]) # "ok" THEN {"C08:glr(debug=True):" \o Positions(C.glrdbg.trees[i])} ELSE {} : i \in DOMAIN C.glrdbg.trees }
 \* a DisambiguationError is located at the ambiguous token: a lattice node at which at least two terminals match (any input, any table)
 \cup (IF C.built /\ lr.kind = "disamb" /\ ~(lr.exc.pos \in Nodes /\ Cardinality(MatchingAt(lr.exc.pos)) >= 2)
       THEN {"C10:lr:disambiguation-error-not-located-at-an-ambiguous-token"} ELSE {})
 \cup (IF C.consume /\ sentence /\ glr.kind \notin {"forest"} THEN {"C01:glr-rejects-sentence"} ELSE {})

Flags(RF) == [sentence |-> (Roots \cap RF.all) # {}, exact |-> C.built /\ Exact, linear |-> Linear, emptyReduceCycle |-> C.built /\ EmptyReduceCycle,
              trailingLayoutExcessOnly |-> \A i \in DOMAIN C.glr.trees : Struct(C.glr.trees[i]) # "ok" \/ OnlyTrailingLayoutExcess(C.glr.trees[i]),
              lvp |-> LVP(EarleySets(P, PathFrom(L.s0)[1])), ntok |-> Len(PathFrom(L.s0)[1])]

Init == cid \in DOMAIN Cases /\ phase = 0 /\ verdict = <<>>
Check == /\ phase = 0 /\ phase' = 1 /\ UNCHANGED cid
         /\ LET RF == RefForest(P, L, Roots) IN verdict' = <<Clauses(RF), Flags(RF)>>
Next == Check
Spec == Init /\ [][Next]_vars
Report == phase = 1 => PrintT(<<"VERDICT", C.cix, verdict[1], verdict[2]>>)
=============================================================================
