------------------------------- MODULE Prec -------------------------------
(***************************************************************************)
(* Operator precedence reference (DESIGN 3.9 Prec, 7 C06, C18).             *)
(*                                                                         *)
(* An operator table maps each binary operator to [prio, assoc].  Trees of  *)
(* an expression are tagged tuples (TLC cannot compare a string with a      *)
(* tuple):  <<"L">>  leaf n,  <<"P", t>>  parenthesised,  <<"B", op, l, r>>. *)
(* PrecCorrect(t): no child of a binary node violates priority or           *)
(* associativity -- the tree a precedence-climbing parser builds.  TLC      *)
(* enumerates ALL trees of the token sequence for the ambiguous grammar     *)
(*   E: E op E | "(" E ")" | "n"                                            *)
(* checks that exactly one is PrecCorrect (uniqueness lemma, per case), and *)
(* compares it with what the real LR and GLR parsers returned.              *)
(***************************************************************************)
EXTENDS Naturals, Sequences, FiniteSets, TLC, Json, IOUtils

Cases == JsonDeserialize(IOEnv.CASES_FILE)
VARIABLES cid, eid, phase
vars == <<cid, eid, phase>>
C == Cases[cid]
Ops == DOMAIN C.ops
IsLeaf(t) == t[1] = "L"
IsParen(t) == t[1] = "P"
IsBin(t) == t[1] = "B"

RECURSIVE PrecCorrect(_)
PrecCorrect(t) ==
  IF IsLeaf(t) THEN TRUE
  ELSE IF IsParen(t) THEN PrecCorrect(t[2])
  ELSE LET op == t[2]  p == C.ops[op].prio  a == C.ops[op].assoc  lt == t[3]  rt == t[4] IN
       /\ PrecCorrect(lt) /\ PrecCorrect(rt)
       /\ (IsBin(lt) => (C.ops[lt[2]].prio > p \/ (C.ops[lt[2]].prio = p /\ a = "left")))
       /\ (IsBin(rt) => (C.ops[rt[2]].prio > p \/ (C.ops[rt[2]].prio = p /\ a = "right")))

RECURSIVE TreesOf(_)
TreesOf(toks) ==
  IF Len(toks) = 0 THEN {}
  ELSE IF Len(toks) = 1 THEN (IF toks[1] = "n" THEN {<<"L">>} ELSE {})
  ELSE (IF toks[1] = "(" /\ toks[Len(toks)] = ")" THEN { <<"P", t>> : t \in TreesOf(SubSeq(toks, 2, Len(toks)-1)) } ELSE {})
       \cup UNION { { <<"B", toks[i], l, r>> : l \in TreesOf(SubSeq(toks, 1, i-1)), r \in TreesOf(SubSeq(toks, i+1, Len(toks))) }
                    : i \in { j \in 2..(Len(toks)-1) : toks[j] \in Ops } }

E == C.exprs[eid]
Clauses ==
  LET all == TreesOf(E.toks)
      correct == { t \in all : PrecCorrect(t) }
      glrset == { E.glr[i] : i \in DOMAIN E.glr } IN
      (IF all # {} /\ Cardinality(correct) # 1 THEN {"SPEC:prec-correct-tree-not-unique"} ELSE {})
 \cup (IF all # {} /\ E.lr.kind # "tree" THEN {"C06:lr-rejects-expression"} ELSE {})
 \cup (IF all = {} /\ E.lr.kind = "tree" THEN {"C06:lr-accepts-non-expression"} ELSE {})
 \cup (IF all # {} /\ E.lr.kind = "tree" /\ E.lr.tree \notin correct THEN {"C06:lr-tree-not-precedence-correct"} ELSE {})
 \cup (IF all # {} /\ Len(E.glr) # 1 THEN {"C06:glr-not-exactly-one-tree"} ELSE {})
 \cup (IF all # {} /\ Len(E.glr) >= 1 /\ ~(glrset \subseteq correct) THEN {"C06:glr-tree-not-precedence-correct"} ELSE {})
 \cup (IF C.strat /\ E.strat_plain # E.strat_marked THEN {"C06:marks-change-stratified-grammar"} ELSE {})
 \cup (IF C.strat /\ all # {} /\ E.strat_plain.kind = "tree" /\ E.strat_plain.tree \notin correct THEN {"SPEC:stratified-grammar-disagrees"} ELSE {})
 \cup (IF C.filter /\ all # {} /\ (E.flr.kind # "tree" \/ E.flr.tree \notin correct) THEN {"C18:lr-precedence-filter-tree"} ELSE {})
 \cup (IF C.filter /\ all # {} /\ (Len(E.fglr) # 1 \/ ~({ E.fglr[i] : i \in DOMAIN E.fglr } \subseteq correct)) THEN {"C18:glr-precedence-filter-tree"} ELSE {})

CaseClauses == IF ~C.built THEN {"C06:parser-does-not-construct"} ELSE {}

Init == cid \in DOMAIN Cases /\ eid = 0 /\ phase = 0
Pick == eid = 0 /\ C.built /\ \E i \in DOMAIN C.exprs : eid' = i /\ UNCHANGED <<cid, phase>>
Chk == eid # 0 /\ phase = 0 /\ phase' = 1 /\ UNCHANGED <<cid, eid>>
Spec == Init /\ [][Pick \/ Chk]_vars
Report ==
  /\ phase = 1 => PrintT(<<"VERDICT", C.cix, eid, Clauses, Cardinality(TreesOf(E.toks))>>)
  /\ (eid = 0 /\ phase = 0) => PrintT(<<"CASE", C.cix, CaseClauses>>)
=============================================================================
