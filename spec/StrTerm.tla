------------------------------ MODULE StrTerm ------------------------------
(***************************************************************************)
(* String terminals and KEYWORD (DESIGN 3.9 StrTerm, 7 C19): the reference  *)
(* computes the match itself on code units.  Text and input are sequences   *)
(* of code points (ASCII in the explored space).                            *)
(*   LitMatch   the terminal matches exactly its text at position p         *)
(*   KwMatch    LitMatch and no word character immediately before or after  *)
(* Whether a text is fully matched by the user's KEYWORD regex is an input  *)
(* (Python re.fullmatch, trusted).                                          *)
(***************************************************************************)
EXTENDS Naturals, Sequences, FiniteSets
IsWord(c) == c \in 48..57 \/ c \in 65..90 \/ c \in 97..122 \/ c = 95
Fold(c) == IF c \in 65..90 THEN c + 32 ELSE c
Same(a, b, ic) == IF ic THEN Fold(a) = Fold(b) ELSE a = b
\* p is a 0-based position in In
LitMatch(T, In, p, ic) == Len(T) > 0 /\ p + Len(T) <= Len(In) /\ \A i \in 1..Len(T) : Same(In[p+i], T[i], ic)
KwMatch(T, In, p, ic) == /\ LitMatch(T, In, p, ic)
                         /\ (p = 0 \/ ~IsWord(In[p]))
                         /\ (p + Len(T) = Len(In) \/ ~IsWord(In[p + Len(T) + 1]))
MatchLen(T, In, p, ic, iskw) == IF (IF iskw THEN KwMatch(T, In, p, ic) ELSE LitMatch(T, In, p, ic)) THEN Len(T) ELSE 0
\* facts about a text that name the classes of the known findings (DESIGN 6, D11)
HasDot(T) == \E i \in DOMAIN T : T[i] = 46
HasCtl(T) == \E i \in DOMAIN T : T[i] \in {9, 10}
NonWordEdge(T) == Len(T) > 0 /\ (~IsWord(T[1]) \/ ~IsWord(T[Len(T)]))
=============================================================================
