-------------------------- MODULE ForestAPITrace --------------------------
(***************************************************************************)
(* Trace validation of a history of calls on a REAL Forest object against   *)
(* the ForestAPI machine over the recorded DAG (Forest.tla).  State: the    *)
(* current DAG fn (pruned by disambiguate), obs = the index -> tree         *)
(* assignment revealed so far.  Every reply is compared with what the       *)
(* machine allows; the first disallowed reply is reported with its clause.  *)
(***************************************************************************)
EXTENDS Forest, Integers, TLC, Json, IOUtils
Cases == JsonDeserialize(IOEnv.CASES_FILE)
VARIABLES cid, l, fn, obs, bad
vars == <<cid, l, fn, obs, bad>>
C == Cases[cid]
Trace == C.trace
e == Trace[l]
Root == C.root
K == 60
Cyc == Cyclic(fn)
Cnt == IF Cyc THEN -1 ELSE Counts(fn, 0, TRUE).cnt[Root]
Small == ~Cyc /\ Counts(fn, 0, FALSE).cnt[Root] <= K
Trees == TreesOf(fn)[Root]
Prune(policy) ==
  [ i \in DOMAIN fn |-> IF Len(fn[i].alts) > 1
                        THEN [fn[i] EXCEPT !.alts = CASE policy = "keep-first" -> <<fn[i].alts[1]>>
                                                      [] policy = "keep-last" -> <<fn[i].alts[Len(fn[i].alts)]>>
                                                      [] OTHER -> SubSeq(fn[i].alts, 1, Len(fn[i].alts) - 1)]   \* "drop-last"
                        ELSE fn[i] ]
\* a reply that is a sequence of trees (iteration): bijection onto the represented trees, consistent with what was seen
IterOK(ts) == /\ Len(ts) = Cnt
              /\ { ts[i] : i \in DOMAIN ts } = Trees
              /\ \A i \in DOMAIN ts : (i - 1) \in DOMAIN obs => obs[i - 1] = ts[i]
GetClause(idx, r) ==
  IF idx >= Cnt THEN (IF r.kind = "IndexError" THEN "ok" ELSE "C03:index-beyond-len-does-not-raise-IndexError")
  ELSE IF r.kind # "tree" THEN "C03:valid-index-raises"
  ELSE IF r.tree \notin Trees THEN "C03:tree-not-represented-by-the-forest"
  ELSE IF idx \in DOMAIN obs /\ obs[idx] # r.tree THEN "C03:index-denotes-different-trees-across-accesses"
  ELSE IF \E j \in DOMAIN obs : j # idx /\ obs[j] = r.tree THEN "C03:two-indices-denote-the-same-tree"
  ELSE "ok"
Clause ==
  IF ~Small THEN "skip"
  ELSE CASE e.op \in {"len", "solutions"} -> IF e.r.kind = "int" /\ e.r.v = Cnt THEN "ok" ELSE "C03:len-or-solutions"
         [] e.op = "ambiguities" -> IF e.r.kind = "int" /\ e.r.v = Cardinality(AmbNodes(fn)) THEN "ok" ELSE "C03:ambiguities"
         [] e.op \in {"lazy", "nonlazy"} -> GetClause(e.idx, e.r)
         [] e.op = "first" -> GetClause(0, e.r)
         [] e.op \in {"iter", "iter_nonlazy"} -> IF e.r.kind = "trees" /\ IterOK(e.r.trees) THEN "ok" ELSE "C03:iteration-not-a-bijection-onto-the-trees"
         [] e.op = "tostr" -> IF e.r.kind = "str" THEN "ok" ELSE "C03:to_str-raises"
         [] OTHER -> "ok"
Step ==
  /\ l <= Len(Trace) /\ l' = l + 1 /\ UNCHANGED cid
  /\ bad' = IF Clause \in {"ok", "skip"} THEN bad ELSE bad \cup { <<l, Clause>> }
  /\ fn' = IF e.op = "disambiguate" THEN Prune(e.policy) ELSE fn
  /\ obs' = IF e.op = "disambiguate" THEN <<>>
            ELSE IF ~Small THEN obs
            ELSE IF e.op \in {"lazy", "nonlazy"} /\ e.r.kind = "tree" /\ e.idx < Cnt /\ e.idx \notin DOMAIN obs THEN (e.idx :> e.r.tree) @@ obs
            ELSE IF e.op = "first" /\ e.r.kind = "tree" /\ 0 \notin DOMAIN obs THEN (0 :> e.r.tree) @@ obs
            ELSE IF e.op \in {"iter", "iter_nonlazy"} /\ e.r.kind = "trees" THEN [ i \in 0..(Len(e.r.trees) - 1) |-> e.r.trees[i + 1] ] @@ obs
            ELSE obs
Init == cid \in DOMAIN Cases /\ l = 1 /\ fn = C.nodes /\ obs = <<>> /\ bad = {}
Spec == Init /\ [][Step]_vars
\* fact for the known finding D2: the recorded DAG already holds identical alternatives in one node
Facts == IF DupNodes(C.nodes) # {} THEN {"dag-has-duplicate-alternatives"} ELSE {}
Report == l > Len(Trace) => PrintT(<<"VERDICT", C.cix, bad, Facts>>)
=============================================================================
