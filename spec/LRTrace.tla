------------------------------ MODULE LRTrace ------------------------------
(***************************************************************************)
(* Trace validation of the LR driver (hooks H-lr, DESIGN 3.4 LRParse, 4.1). *)
(* The machine is the LR pushdown automaton over the REAL table of the      *)
(* case: a stack of state ids, the position, the lookahead.  Recorded       *)
(* events: tok (lookahead decided), shift, reduce, accept, error, recover.  *)
(* Every event must be a step the table allows:                             *)
(*   shift   the cell of (top state, lookahead) holds SHIFT to the recorded *)
(*           state; the position advances by the token length               *)
(*   reduce  the cell holds REDUCE p (with consume_input off also through   *)
(*           the STOP fallback); |rhs p| states are popped, goto pushed     *)
(*   accept  the cell holds ACCEPT                                          *)
(*   error   the cell is empty (StackIsViablePrefix is implied by replaying *)
(*           every step from state 0)                                       *)
(*   recover RecoveryProgress: the head moved forward, or the lookahead     *)
(*           changed (token injected) -- the variant that makes termination *)
(*           a safety property (C11)                                        *)
(*   strat   (logged by the harness's own custom strategy, not by a hook):  *)
(*           what the strategy left in the head when it returned.  The     *)
(*           next recover event -- the parser's view after _do_recovery --  *)
(*           must continue from exactly that (position and lookahead): the  *)
(*           documented contract of custom recovery                        *)
(* The spec is total: the first disallowed event sets `verdict`.            *)
(***************************************************************************)
EXTENDS Naturals, Sequences, FiniteSets, TLC, Json, IOUtils
Cases == JsonDeserialize(IOEnv.CASES_FILE)
VARIABLES cid, l, stack, la, pos, verdict, nrec, lastrec, pend, laend
vars == <<cid, l, stack, la, pos, verdict, nrec, lastrec, pend, laend>>
\* laend: where the pending lookahead ends in the input (its position + its LENGTH -- not the length of its value: an injected token has a
\* value and length 0); -1 when the recorder did not log it (traces of the LR stage)
EndOf(ev) == IF "tlen" \in DOMAIN ev /\ ev.tlen >= 0 /\ ev.tpos >= 0 THEN ev.tpos + ev.tlen ELSE 0 - 1
NoPend == <<>>
C == Cases[cid]
Trace == C.lrtrace
Prod(p) == C.prods[p+1]
State(s) == C.tbl[s+1]
Acts(s, sym) == IF sym \in DOMAIN State(s).actions THEN State(s).actions[sym] ELSE <<>>
Has(s, sym, a) == \E i \in DOMAIN Acts(s, sym) : Acts(s, sym)[i] = a
Top == stack[Len(stack)]
e == Trace[l]
Step == l' = l + 1 /\ UNCHANGED cid
Fail(msg) == verdict' = msg /\ UNCHANGED <<stack, la, pos, nrec, lastrec, pend, laend>>

\* the scanner runs only when no lookahead is pending (after a shift, or after a recovery that left none)
Tok == e.e = "tok" /\ Step /\
  IF la # "-" THEN Fail("lr:rescan-with-pending-lookahead")
  ELSE la' = e.sym /\ pos' = e.pos /\ laend' = EndOf(e) /\ UNCHANGED <<stack, verdict, nrec, lastrec, pend>>
\* (a lookahead the strategy left although it was scanned BEFORE the position the strategy moved to is stale: the parser drops it)
Strat == e.e = "strat" /\ Step /\ pend' = <<e.ok, IF e.sym # "-" /\ "tpos" \in DOMAIN e /\ e.tpos < e.pos THEN "-" ELSE e.sym, e.pos>> /\ UNCHANGED <<stack, la, pos, verdict, nrec, lastrec, laend>>
Shift == e.e = "shift" /\ Step /\
  IF ~Has(Top, la, [a |-> "S", to |-> e.st]) THEN Fail("lr:shift-not-in-table")
  ELSE IF laend >= 0 /\ e.pos # laend THEN Fail("lr:shift-does-not-advance-to-the-end-of-the-token")
  ELSE /\ stack' = Append(stack, e.st) /\ pos' = e.pos /\ la' = "-" /\ laend' = 0 - 1 /\ UNCHANGED <<verdict, nrec, lastrec, pend>>
\* with consume_input off a reduction may be taken from the STOP column when the lookahead has no action
RedOK(p) == Has(Top, la, [a |-> "R", p |-> p]) \/ (~C.consume /\ Acts(Top, la) = <<>> /\ Has(Top, "STOP", [a |-> "R", p |-> p]))
Reduce == e.e = "reduce" /\ Step /\
  LET k == Len(Prod(e.p).rhs) IN
  IF ~RedOK(e.p) THEN Fail("lr:reduce-not-in-table")
  ELSE IF k >= Len(stack) THEN Fail("lr:stack-underflow")
  ELSE LET below == stack[Len(stack) - k] IN
       IF Prod(e.p).lhs \notin DOMAIN State(below).gotos THEN Fail("lr:no-goto")
       ELSE IF State(below).gotos[Prod(e.p).lhs] # e.st THEN Fail("lr:wrong-goto")
       ELSE stack' = Append(SubSeq(stack, 1, Len(stack) - k), e.st) /\ UNCHANGED <<la, pos, verdict, nrec, lastrec, pend, laend>>
Accept == e.e = "accept" /\ Step /\
  IF Has(Top, la, [a |-> "A"]) \/ (~C.consume /\ Acts(Top, la) = <<>> /\ Has(Top, "STOP", [a |-> "A"])) THEN UNCHANGED <<stack, la, pos, verdict, nrec, lastrec, pend, laend>>
  ELSE Fail("lr:accept-not-in-table")
Error == e.e = "error" /\ Step /\
  IF la # "-" /\ Acts(Top, la) # <<>> THEN Fail("lr:error-although-action-exists")
  ELSE UNCHANGED <<stack, la, pos, verdict, nrec, lastrec, pend, laend>>
Recover == e.e = "recover" /\ Step /\ nrec' = nrec + 1 /\ UNCHANGED stack /\ pend' = NoPend /\ laend' = (IF e.ok THEN EndOf(e) ELSE laend) /\
  IF pend # NoPend /\ (e.ok # pend[1] \/ (e.ok /\ (e.sym # pend[2] \/ e.pos # pend[3])))
  THEN verdict' = "C11:parser-does-not-continue-from-what-the-strategy-left" /\ UNCHANGED <<la, pos, lastrec>>
  \* a successful recovery resumes with no lookahead (it is scanned next) or with a token AT OR AFTER the resume position: a lookahead that
  \* was scanned before the skipped text is stale (with it the same error repeats for ever: the machine would not terminate)
  ELSE IF e.ok /\ e.sym # "-" /\ "tpos" \in DOMAIN e /\ e.tpos < e.pos
  THEN verdict' = "C11:recovery-resumes-with-a-lookahead-scanned-before-the-resume-position" /\ UNCHANGED <<la, pos, lastrec>> ELSE
  \* progress is demanded of the DEFAULT strategy; a custom strategy decides itself what it does to the head
  IF C.strategy \in {"default", "wrap"} /\ e.ok /\ <<e.pos, e.sym, stack>> = lastrec THEN verdict' = "C11:recovery-without-progress" /\ UNCHANGED <<la, pos, lastrec>>
  ELSE IF C.strategy \in {"default", "wrap"} /\ e.ok /\ e.pos <= pos THEN verdict' = "C11:default-recovery-does-not-advance" /\ UNCHANGED <<la, pos, lastrec>>
  ELSE /\ la' = (IF e.ok THEN e.sym ELSE la)
       /\ pos' = (IF e.ok THEN e.pos ELSE pos)
       /\ lastrec' = (IF e.ok THEN <<e.pos, e.sym, stack>> ELSE lastrec)
       /\ UNCHANGED verdict
Init == cid \in DOMAIN Cases /\ l = 1 /\ stack = <<0>> /\ la = "-" /\ pos = 0 /\ verdict = "ok" /\ nrec = 0 /\ lastrec = <<>> /\ pend = NoPend /\ laend = 0 - 1
Next == verdict = "ok" /\ l <= Len(Trace) /\ (Tok \/ Shift \/ Reduce \/ Accept \/ Error \/ Recover \/ Strat)
Spec == Init /\ [][Next]_vars
Report == (verdict # "ok" \/ l > Len(Trace)) => PrintT(<<"TRACE", C.cix, verdict, l, nrec>>)
=============================================================================
