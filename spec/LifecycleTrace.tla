-------------------------- MODULE LifecycleTrace --------------------------
(***************************************************************************)
(* Trace validation for Lifecycle.tla.  A trace is one history replayed on  *)
(* real objects: per step the call, the projected abstract state of the     *)
(* Grammar object after it ([aug, first]), the reply, and the reply of the  *)
(* SAME call on a freshly built grammar and parser.  TLC steps the machine  *)
(* along the trace, compares the projection after every step and evaluates  *)
(* the reference HistoryIndependent on every parse.                         *)
(***************************************************************************)
EXTENDS Lifecycle, Json, IOUtils
Cases == JsonDeserialize(IOEnv.CASES_FILE)
VARIABLES cid, l, bad
tvars == <<vars, cid, l, bad>>
C == Cases[cid]
Trace == C.trace
e == Trace[l]
Act == \/ (e.op = "build" /\ Build(e.a))
       \/ (e.op = "buildfail" /\ BuildFail(e.a))
       \/ (e.op = "parse" /\ Parse(e.a, e.b))
TStep ==
  /\ l <= Len(Trace) /\ Act /\ l' = l + 1 /\ UNCHANGED cid
  /\ bad' = bad
       \cup (IF e.aug # aug' THEN { <<l, "C15:grammar-augmented-production-not-restored", e.aug>> } ELSE {})
       \cup (IF e.first # firstCached' THEN { <<l, "X:first-sets-cache-differs-from-model", "">> } ELSE {})
       \cup (IF e.op = "parse" /\ e.reply # e.fresh THEN { <<l, "C15:parse-outcome-depends-on-history", e.a \o ":" \o e.b>> } ELSE {})
       \cup (IF e.op = "build" /\ ~e.ok THEN { <<l, "C15:build-fails-after-history", e.a>> } ELSE {})
       \cup (IF e.op = "buildfail" /\ e.ok THEN { <<l, "X:failing-build-succeeded", e.a>> } ELSE {})
TInit == Init /\ cid \in DOMAIN Cases /\ l = 1 /\ bad = {}
TSpec == TInit /\ [][TStep]_tvars
Report == l > Len(Trace) => PrintT(<<"VERDICT", C.cix, bad>>)
=============================================================================
