---------------------------- MODULE PrecDesign ----------------------------
(***************************************************************************)
(* Design-level theorem behind C06 (DESIGN 3.3 Resolve, 3.9 Prec):          *)
(*                                                                         *)
(*   for EVERY operator table over K binary operators (a priority per      *)
(*   operator, one associativity per priority level) the LALR(1) table of   *)
(*        E: E o1 E | ... | E oK E | "(" E ")" | "n"                        *)
(*   -- synthesised here from the canonical LR(1) collection (LR1.tla) --   *)
(*   resolved by Resolve!ResolveCell with every prefer-shift strategy off   *)
(*   is DETERMINISTIC (no cell keeps two actions, no cell is order          *)
(*   sensitive), and the LR automaton over it accepts exactly the           *)
(*   well-formed expressions and builds, for each, THE tree a               *)
(*   precedence-climbing parser builds (the unique PrecCorrect tree).       *)
(*                                                                         *)
(* TLC checks it exhaustively for the K of the configuration: all tables,   *)
(* all expressions up to SentLen tokens, all token strings up to AnyLen.    *)
(* The code is bound to Resolve by ResolvedWalk.tla (the real resolved      *)
(* table equals the spec-resolved table cell by cell).                      *)
(***************************************************************************)
EXTENDS Resolve, TLC, FiniteSets
CONSTANTS K, SentLen, AnyLen,
          MixedAssoc   \* negative control: FALSE = one associativity per priority level (C06's scope); TRUE = per operator
VARIABLES tab, toks, res
vars == <<tab, toks, res>>

Op(i) == "o" \o ToString(i)
OpSyms == { Op(i) : i \in 1..K }
Terms == {"n", "(", ")"} \cup OpSyms
P == <<[lhs |-> "S'", rhs |-> <<"E", "STOP">>]>> \o [ i \in 1..K |-> [lhs |-> "E", rhs |-> <<"E", Op(i), "E">>] ]
     \o <<[lhs |-> "E", rhs |-> <<"(", "E", ")">>], [lhs |-> "E", rhs |-> <<"n">>]>>
G == GrammarCtx(P)
All == AllLR1(G, Terms)
Cores == { Core(S) : S \in All }
ItemsF == [ c \in Cores |-> UNION { T \in All : Core(T) = c } ]            \* the LALR(1) state: merged lookaheads
TT == Terms \cup {"STOP"}
RedsF == [ c \in Cores |-> [ t \in TT |-> CanReduce(G, ItemsF[c], t) ] ]
GotoF == [ c \in Cores |-> [ X \in { Y \in (Terms \cup {"E"}) : Y \in NextSyms(G, ItemsF[c]) } |-> Core(Goto(G, ItemsF[c], X)) ] ]
C0 == Core(I0(G))

\* ---- operator tables: a priority per operator, an associativity per priority level
Tables == [prio : [1..K -> 1..K], assoc : [1..K -> {"left", "right"}]]
OpIdx(o) == CHOOSE i \in 1..K : Op(i) = o
PrioOf(T, o) == T.prio[OpIdx(o)]
AssocIdx(T, i) == IF MixedAssoc THEN i ELSE T.prio[i]
AssocOf(T, o) == T.assoc[AssocIdx(T, OpIdx(o))]
Attr(T) == [ p \in DOMAIN P |-> IF p \in 2..(K+1) THEN [prio |-> T.prio[p-1], assoc |-> T.assoc[AssocIdx(T, p-1)], nops |-> FALSE, nopse |-> FALSE]
                                ELSE [prio |-> DefaultPrio, assoc |-> "none", nops |-> FALSE, nopse |-> FALSE] ]
Off == [ps |-> FALSE, pse |-> FALSE]
Action(T, c, t) == ResolveCell(G, Attr(T), ItemsF[c], t, RedsF[c][t], Off)

Deterministic(T) == \A c \in Cores : \A t \in TT :
                       LET a == Action(T, c, t) IN ~a.sensitive /\ Cardinality(a.reds) <= 1 /\ (a.shift => a.reds = {})

\* ---- the LR automaton over the resolved table, building trees <<"L">> / <<"P", t>> / <<"B", op, l, r>> (tokens: <<"T", t>>)
Build(p, kids) == IF p \in 2..(K+1) THEN <<"B", kids[2][2], kids[1], kids[3]>>
                  ELSE IF p = K + 2 THEN <<"P", kids[2]>> ELSE <<"L">>
RECURSIVE Run(_, _, _)
Run(T, stk, i) ==
  LET c == stk[Len(stk)][1]
      t == IF i <= Len(toks) THEN toks[i] ELSE "STOP"
      a == Action(T, c, t) IN
  IF a.shift /\ a.reds = {}
  THEN (IF t = "STOP" THEN <<"accept", stk[Len(stk)][2]>> ELSE Run(T, Append(stk, <<GotoF[c][t], <<"T", t>>>>), i + 1))
  ELSE IF ~a.shift /\ Cardinality(a.reds) = 1
  THEN LET p == CHOOSE q \in a.reds : TRUE
           k == Len(P[p].rhs)
           base == SubSeq(stk, 1, Len(stk) - k)
           kids == [ j \in 1..k |-> stk[Len(stk) - k + j][2] ]
           below == base[Len(base)][1]
       IN Run(T, Append(base, <<GotoF[below]["E"], Build(p, kids)>>), i)
  ELSE IF ~a.shift /\ a.reds = {} THEN <<"reject">>
  ELSE <<"conflict">>

\* ---- reference: all trees of a token string, the precedence-correct ones
IsBin(t) == t[1] = "B"
RECURSIVE PrecCorrect(_, _)
PrecCorrect(T, t) ==
  IF t[1] = "L" THEN TRUE
  ELSE IF t[1] = "P" THEN PrecCorrect(T, t[2])
  ELSE LET p == PrioOf(T, t[2])  a == AssocOf(T, t[2]) IN
       /\ PrecCorrect(T, t[3]) /\ PrecCorrect(T, t[4])
       /\ (IsBin(t[3]) => (PrioOf(T, t[3][2]) > p \/ (PrioOf(T, t[3][2]) = p /\ a = "left")))
       /\ (IsBin(t[4]) => (PrioOf(T, t[4][2]) > p \/ (PrioOf(T, t[4][2]) = p /\ a = "right")))
RECURSIVE TreesOf(_)
TreesOf(w) ==
  IF Len(w) = 0 THEN {}
  ELSE IF Len(w) = 1 THEN (IF w[1] = "n" THEN {<<"L">>} ELSE {})
  ELSE (IF w[1] = "(" /\ w[Len(w)] = ")" THEN { <<"P", t>> : t \in TreesOf(SubSeq(w, 2, Len(w)-1)) } ELSE {})
       \cup UNION { { <<"B", w[i], l, r>> : l \in TreesOf(SubSeq(w, 1, i-1)), r \in TreesOf(SubSeq(w, i+1, Len(w))) }
                    : i \in { j \in 2..(Len(w)-1) : w[j] \in OpSyms } }

\* ---- inputs: every expression up to SentLen tokens, every token string up to AnyLen
RECURSIVE ExprsLen(_)
ExprsLen(l) == IF l = 1 THEN { <<"n">> }
               ELSE IF l < 3 THEN {}
               ELSE { <<"(">> \o e \o <<")">> : e \in ExprsLen(l-2) }
                    \cup UNION { { a \o <<o>> \o b : a \in ExprsLen(i), b \in ExprsLen(l-1-i), o \in OpSyms } : i \in 1..(l-2) }
RECURSIVE SeqsLen(_)
SeqsLen(l) == IF l = 0 THEN { <<>> } ELSE { <<t>> \o s : t \in Terms, s \in SeqsLen(l-1) }
Inputs == UNION { ExprsLen(l) : l \in 1..SentLen } \cup UNION { SeqsLen(l) : l \in 0..AnyLen }

NotRun == <<"-">>
TableCheck == <<"table">>          \* the pseudo-input on which Deterministic(tab) is evaluated (once per table)
Init == tab \in Tables /\ toks \in (Inputs \cup {TableCheck}) /\ res = NotRun
Parse == res = NotRun /\ toks # TableCheck /\ res' = Run(tab, << <<C0, <<"-">>>> >>, 1) /\ UNCHANGED <<tab, toks>>
Spec == Init /\ [][Parse]_vars

\* ---- the theorem
ConflictFree == (toks = TableCheck) => Deterministic(tab)
ParsesToPrecCorrectTree ==
  (res # NotRun) =>
     LET all == TreesOf(toks)
         correct == { t \in all : PrecCorrect(tab, t) } IN
     IF all = {} THEN res = <<"reject">>
     ELSE Cardinality(correct) = 1 /\ res = <<"accept", CHOOSE t \in correct : TRUE>>
=============================================================================
