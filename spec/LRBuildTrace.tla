---------------------------- MODULE LRBuildTrace ----------------------------
(***************************************************************************)
(* Trace validation of REAL LALR table constructions against LRBuild.tla    *)
(* (hooks tbl_pop / tbl_goto / tbl_states; code -> spec, C05).              *)
(*                                                                         *)
(* A case: the grammar, trace = <<[e |-> "pop", s] | [e |-> "goto", s, sym, *)
(* t, created]>> in the order the implementation took them, and final =     *)
(* the kernel lookaheads of every state after propagation.  Every recorded  *)
(* event must be the step LRBuild takes: the popped state is the head of    *)
(* the queue; the target of a goto -- an existing state merged into, one of *)
(* the other states with that core, or a new/split state -- is the one      *)
(* LRBuild!Decide chooses; after the last event the queue is empty, and     *)
(* propagation (silent steps) ends in exactly the recorded lookaheads.      *)
(* The design-level properties of LRBuild (Bounded, Terminates, Faithful,   *)
(* model-checked for every handling order) thereby speak about the code.    *)
(***************************************************************************)
EXTENDS LRBuild
VARIABLES l, verdict
tvars == <<cid, st, procd, queue, cur, cl, pend, goto, phase, l, verdict>>
Trace == C.trace
e == Trace[l]
Fail(msg) == verdict' = msg /\ UNCHANGED <<cid, st, procd, queue, cur, cl, pend, goto, phase, l>>

TPop == /\ verdict = "ok" /\ phase = "expand" /\ l <= Len(Trace) /\ e.e = "pop"
        /\ IF cur # NoState /\ pend # {} THEN Fail("build:pop-while-symbols-pending")
           ELSE IF queue = <<>> \/ Head(queue) # e.s + 1 THEN Fail("build:popped-state-is-not-the-head-of-the-queue")
           ELSE /\ cur' = Head(queue) /\ queue' = Tail(queue) /\ procd' = Append(procd, Head(queue))
                /\ cl' = Closure(G, ItemsOf(st[Head(queue)]))
                /\ pend' = NextSyms(G, cl') \ {"STOP"}
                /\ l' = l + 1 /\ UNCHANGED <<cid, st, goto, phase, verdict>>
TGoto == /\ verdict = "ok" /\ phase = "expand" /\ l <= Len(Trace) /\ e.e = "goto"
         /\ IF cur # e.s + 1 THEN Fail("build:goto-from-a-state-that-is-not-being-expanded")
            ELSE IF e.sym \notin pend THEN Fail("build:goto-over-a-symbol-not-pending-in-the-closure")
            ELSE LET d == Decide(G, st, procd, queue, KernelOf(G, cl, e.sym)) IN
                 IF d[2] # e.t + 1 \/ (d[1] \in {"new", "split"}) # e.created THEN Fail("build:target-differs-from-the-specified-decision")
                 ELSE /\ st' = d[3]
                      /\ queue' = IF d[1] \in {"new", "split"} THEN Append(queue, d[2]) ELSE queue
                      /\ goto' = (<<cur, e.sym>> :> d[2]) @@ goto
                      /\ pend' = pend \ {e.sym}
                      /\ l' = l + 1 /\ UNCHANGED <<cid, procd, cur, cl, phase, verdict>>
\* after the last event: nothing may be left to do in the expansion phase
TFinish == /\ verdict = "ok" /\ phase = "expand" /\ l > Len(Trace)
           /\ IF queue # <<>> \/ (cur # NoState /\ pend # {}) THEN Fail("build:trace-ends-before-the-construction")
              ELSE phase' = "propagate" /\ UNCHANGED <<cid, st, procd, queue, cur, cl, pend, goto, l, verdict>>
TPropagate == /\ verdict = "ok" /\ phase = "propagate"
              /\ LET s2 == PropagateRound(G, st, goto) IN
                 IF s2 # st THEN st' = s2 /\ UNCHANGED <<phase, verdict>>
                 ELSE /\ phase' = "done" /\ UNCHANGED st
                      /\ verdict' = IF Len(C.final) # Len(st) THEN "build:number-of-states-differs"
                                    ELSE IF \E i \in DOMAIN st : { <<C.final[i][k][1] + 1, C.final[i][k][2]>> : k \in DOMAIN C.final[i] } # st[i].core THEN "build:final-kernel-differs"
                                    \* (the items of production S' -> start STOP carry no lookahead in the implementation, a dummy STOP here)
                                    ELSE IF \E i \in DOMAIN st : \E k \in DOMAIN C.final[i] :
                                              /\ C.final[i][k][1] # 0
                                              /\ { C.final[i][k][3][j] : j \in DOMAIN C.final[i][k][3] } # st[i].la[<<C.final[i][k][1] + 1, C.final[i][k][2]>>]
                                         THEN "build:final-lookaheads-differ"
                                    ELSE "ok"
              /\ UNCHANGED <<cid, procd, queue, cur, cl, pend, goto, l>>
TInit == BInit /\ l = 1 /\ verdict = "ok"
TNext == TPop \/ TGoto \/ TFinish \/ TPropagate
TSpec == TInit /\ [][TNext]_tvars
Report == (verdict # "ok" \/ phase = "done") => PrintT(<<"BUILD", C.cix, verdict, l, Len(st)>>)
=============================================================================
