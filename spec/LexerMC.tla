------------------------------ MODULE LexerMC ------------------------------
(***************************************************************************)
(* Exhaustive design-level check of Lexer!Impl = Lexer!Doc (DESIGN 3.2):    *)
(* all configurations of NT terminals over kinds {str, kw, re}, priorities  *)
(* in Priors, text/match lengths up to MaxLen, prefer on/off, both values   *)
(* of lexical_disambiguation.  The static part of a configuration is chosen *)
(* in Init, the match vector in a step (initial states are computed on one  *)
(* thread).                                                                 *)
(***************************************************************************)
EXTENDS Lexer, TLC
CONSTANTS NT, Priors, MaxLen
VARIABLES T, ld, phase
vars == <<T, ld, phase>>
Kinds == {"str", "kw", "re"}
Static == [kind : Kinds, prior : Priors, prefer : BOOLEAN, mark : {"none"}, slen : 0..MaxLen]
StaticOK(s) == IF s.kind \in {"str", "kw"} THEN s.slen > 0 ELSE s.slen = 0
Init == /\ phase = 0 /\ ld = TRUE
        /\ \E f \in [1..NT -> { s \in Static : StaticOK(s) }] :
             T = [ i \in 1..NT |-> [kind |-> f[i].kind, prior |-> f[i].prior, prefer |-> f[i].prefer, mark |-> "none",
                                    slen |-> f[i].slen, nrank |-> i, mlen |-> 0] ]
Pick == /\ phase = 0 /\ phase' = 1
        /\ ld' \in BOOLEAN
        /\ \E m \in [1..NT -> 0..MaxLen] : T' = [ i \in 1..NT |-> [T[i] EXCEPT !.mlen = m[i]] ]
Next == Pick
Spec == Init /\ [][Next]_vars
Equiv == (phase = 1 /\ WellFormed(T)) => Impl(T, ld) = Doc(T, ld)
\* without the WellFormed assumption the theorem is false (finding D16): used as a negative control
EquivNoAssumption == phase = 1 => Impl(T, ld) = Doc(T, ld)
=============================================================================
