------------------------------ MODULE Forest ------------------------------
(***************************************************************************)
(* The shared packed parse forest as a counted DAG (DESIGN 3.6).            *)
(*                                                                         *)
(* FN is the forest as recorded through Forest.result: a sequence of        *)
(* symbol nodes, FN[n].alts a SEQUENCE (multiplicity kept) of alternatives  *)
(*   [k |-> "T", t, s, e, n]              a token                           *)
(*   [k |-> "N", p, s, e, c |-> <<ids>>]  production p applied to kids c    *)
(* All quantities are Kleene iterations over the whole node vector (TLC     *)
(* memoises nothing); counts saturate at Cap and are also computed modulo   *)
(* 15-bit primes so that big-integer counts are compared without big ints.  *)
(***************************************************************************)
EXTENDS Naturals, Sequences, FiniteSets

FCap == 1000000
IsTok(a) == a.k = "T"
\* identity of an alternative inside its node: what it derives, not where it was found
AltKey(a) == IF IsTok(a) THEN <<"T", a.t, a.s, a.e>> ELSE <<"N", a.p, a.c>>
AltSeq(FN, n) == FN[n].alts
DistinctAlts(FN, n) == { AltKey(FN[n].alts[i]) : i \in DOMAIN FN[n].alts }
HasDup(FN, n) == Cardinality(DistinctAlts(FN, n)) < Len(FN[n].alts)
DupNodes(FN) == { n \in DOMAIN FN : HasDup(FN, n) }
AmbNodes(FN) == { n \in DOMAIN FN : Cardinality(DistinctAlts(FN, n)) > 1 }
\* what the implementation calls ambiguous: more than one stored possibility
AmbNodesMult(FN) == { n \in DOMAIN FN : Len(FN[n].alts) > 1 }

\* first index of each distinct alternative (de-duplicated alternative sequence)
FirstIdx(FN, n) == { i \in DOMAIN FN[n].alts : \A j \in 1..(i-1) : AltKey(FN[n].alts[j]) # AltKey(FN[n].alts[i]) }

\* saturating product (no 32-bit overflow): both factors are <= FCap
CapMul(a, b) == IF a = 0 \/ b = 0 THEN 0 ELSE IF a > FCap \div b THEN FCap ELSE a * b
RECURSIVE ProdKids(_, _, _, _)
ProdKids(f, kids, i, m) ==
  IF i > Len(kids) THEN 1
  ELSE LET rest == ProdKids(f, kids, i+1, m)
       IN IF m = 0 THEN CapMul(f[kids[i]], rest) ELSE (f[kids[i]] * rest) % m

RECURSIVE SumAlts(_, _, _, _, _)
SumAlts(f, alts, idxs, i, m) ==     \* sum over alternative indices idxs (a set), scanning i upward
  IF i > Len(alts) THEN 0
  ELSE LET v == IF i \in idxs THEN (IF IsTok(alts[i]) THEN 1 ELSE ProdKids(f, alts[i].c, 1, m)) ELSE 0
           r == v + SumAlts(f, alts, idxs, i+1, m)
       IN IF m = 0 THEN (IF r < FCap THEN r ELSE FCap) ELSE r % m

\* dedup = TRUE counts distinct alternatives only
StepCnt(FN, f, m, dedup) ==
  [ n \in DOMAIN FN |-> SumAlts(f, FN[n].alts, IF dedup THEN FirstIdx(FN, n) ELSE DOMAIN FN[n].alts, 1, m) ]

RECURSIVE IterCnt(_, _, _, _, _)
IterCnt(FN, f, m, dedup, k) ==
  LET f2 == StepCnt(FN, f, m, dedup)
  IN IF f2 = f THEN [cnt |-> f, stable |-> TRUE]
     ELSE IF k = 0 THEN [cnt |-> f2, stable |-> FALSE]
     ELSE IterCnt(FN, f2, m, dedup, k-1)

\* meaningful on acyclic forests (then stable after at most depth+1 rounds)
Counts(FN, m, dedup) == IterCnt(FN, [ n \in DOMAIN FN |-> 0 ], m, dedup, Len(FN) + 1)

\* a forest with a cycle represents infinitely many trees: transitive closure of the kid relation
KidsOfNode(FN, n) == UNION { IF IsTok(FN[n].alts[i]) THEN {} ELSE { FN[n].alts[i].c[j] : j \in DOMAIN FN[n].alts[i].c } :
                             i \in DOMAIN FN[n].alts }
RECURSIVE CloseReach(_, _)
CloseReach(FN, R) == LET R2 == [ n \in DOMAIN R |-> R[n] \cup UNION { R[k] : k \in R[n] } ]
                     IN IF R2 = R THEN R ELSE CloseReach(FN, R2)
ReachFrom(FN) == CloseReach(FN, [ n \in DOMAIN FN |-> KidsOfNode(FN, n) ])
Cyclic(FN) == LET R == ReachFrom(FN) IN \E n \in DOMAIN FN : n \in R[n]

\* ---------------------------------------------------------------- the trees a node represents
\* trees are nested tuples <<"T", t, s, e>> / <<"N", p, <<kids>>>>; sets are capped by K trees
RECURSIVE SeqProduct(_, _, _)
SeqProduct(f, kids, i) ==           \* set of sequences choosing one tree per kid
  IF i > Len(kids) THEN { <<>> }
  ELSE LET rest == SeqProduct(f, kids, i+1) IN { <<t>> \o r : t \in f[kids[i]], r \in rest }

TreesStep(FN, f) ==
  [ n \in DOMAIN FN |->
      UNION { IF IsTok(FN[n].alts[i]) THEN { <<"T", FN[n].alts[i].t, FN[n].alts[i].s, FN[n].alts[i].e>> }
              ELSE { <<"N", FN[n].alts[i].p, ks>> : ks \in SeqProduct(f, FN[n].alts[i].c, 1) } :
              i \in DOMAIN FN[n].alts } ]
RECURSIVE TreesIter(_, _, _)
TreesIter(FN, f, k) == LET f2 == TreesStep(FN, f) IN IF f2 = f \/ k = 0 THEN f2 ELSE TreesIter(FN, f2, k-1)
\* only to be used on acyclic forests with few trees
TreesOf(FN) == TreesIter(FN, [ n \in DOMAIN FN |-> {} ], Len(FN) + 1)
=============================================================================
