SPECIFICATION Spec
CONSTANTS Files = {"root", "imp"}
  Root = "root"
  Kinds = {"lr", "glr"}
  MaxSteps = 4
  ImportsCompared = TRUE
  PrefixTolerated = TRUE
INVARIANT HintsNeverStale
INVARIANT NeverFailsOnIncompleteFile
CHECK_DEADLOCK FALSE
