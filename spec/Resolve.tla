------------------------------ MODULE Resolve ------------------------------
(***************************************************************************)
(* Static conflict resolution of an LR table cell (DESIGN 3.3 'Resolve',    *)
(* 7 C06; parglare/tables/__init__.py create_table, docs/conflicts.md).     *)
(*                                                                         *)
(* A cell is (state I, terminal t): a possible SHIFT (or ACCEPT for STOP)   *)
(* and the set `reds` of productions whose completed item has t in its      *)
(* lookahead.  A[p] = [prio, assoc \in {"none","left","right"}, nops,       *)
(* nopse] are the production attributes, opt = [ps, pse] the prefer-shift   *)
(* strategies.  The priority of the shift is the maximal priority of the    *)
(* productions with t after the dot in I (ACCEPT: the default priority).    *)
(*                                                                         *)
(*   a reduction BEATS the shift   if its priority is higher, or equal and  *)
(*                                 it is left associative                   *)
(*   a reduction YIELDS to it      if its priority is lower, or equal and   *)
(*                                 it is right associative, or equal with   *)
(*                                 no associativity and a prefer-shift      *)
(*                                 strategy applies to it                   *)
(*   otherwise both stay (a conflict)                                       *)
(* The shift stays iff nothing beats it; of the reductions that do not      *)
(* yield, those of maximal priority stay.                                   *)
(*                                                                         *)
(* The implementation resolves sequentially in item order; that is the      *)
(* rule above except in SENSITIVE cells: the shift is beaten only by        *)
(* equal-priority left-associative reductions while another reduction of    *)
(* the same priority would yield -- then the outcome depends on which is    *)
(* seen first.  (C06 excludes that: operators of equal priority share one   *)
(* associativity.)  Sensitive cells are reported as such, not judged.       *)
(***************************************************************************)
EXTENDS LR1, Integers

DefaultPrio == 10
MaxOfSet(S) == CHOOSE m \in S : \A x \in S : x <= m
AheadItems(G, I, t) == { y \in I : y[2] < Len(G.P[y[1]].rhs) /\ G.P[y[1]].rhs[y[2]+1] = t }
ShiftPrio(G, A, I, t) == IF t = "STOP" THEN DefaultPrio ELSE MaxOfSet({ A[x[1]].prio : x \in AheadItems(G, I, t) })
Strategy(G, A, p, opt) == IF Len(G.P[p].rhs) = 0 THEN opt.pse /\ ~A[p].nopse ELSE opt.ps /\ ~A[p].nops
Beats(A, p, sh) == A[p].prio > sh \/ (A[p].prio = sh /\ A[p].assoc = "left")
Yields(G, A, p, sh, opt) == A[p].prio < sh \/ (A[p].prio = sh /\ (A[p].assoc = "right" \/ (A[p].assoc = "none" /\ Strategy(G, A, p, opt))))

ResolveCell(G, A, I, t, reds, opt) ==
  LET hasShift == t \in NextSyms(G, I)
      sh == IF hasShift THEN ShiftPrio(G, A, I, t) ELSE 0
      beaters == IF hasShift THEN { p \in reds : Beats(A, p, sh) } ELSE {}
      yielders == IF hasShift THEN { p \in reds : Yields(G, A, p, sh, opt) } ELSE {}
      kept == reds \ yielders
      top == { p \in kept : \A q \in kept : A[q].prio <= A[p].prio }
  IN [shift |-> hasShift /\ beaters = {},
      reds |-> top,
      sensitive |-> beaters # {} /\ (\A b \in beaters : A[b].prio = sh) /\ (\E q \in yielders : A[q].prio = sh)]
=============================================================================
