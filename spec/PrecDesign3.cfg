SPECIFICATION Spec
CONSTANTS
  K = 3
  SentLen = 7
  AnyLen = 3
  MixedAssoc = FALSE
INVARIANT ConflictFree
INVARIANT ParsesToPrecCorrectTree
CHECK_DEADLOCK FALSE
