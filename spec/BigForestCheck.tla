-------------------------- MODULE BigForestCheck --------------------------
(***************************************************************************)
(* Trace validation of calls on REAL Forest objects whose tree counts are   *)
(* big integers (beyond 10^12, 2^32, 2^63 ...), against BigForest.tla over  *)
(* the recorded DAG (code -> spec; C03 "big-integer counts").               *)
(* A case: nodes (kids-first), root, trace = <<[op, idx, r]>> with          *)
(*   op   "len" | "solutions" | "ambiguities" | "lazy" (get_tree) |         *)
(*        "nonlazy" (get_nonlazy_tree) | "getitem" (forest[i]) |            *)
(*        "first" | "iter3" (the first three trees of iteration)            *)
(*   idx  the index as limbs (base 1000, little endian)                     *)
(*   r    [kind |-> "int", v |-> limbs] | [kind |-> "tree", tree |-> t] |   *)
(*        [kind |-> "trees", trees |-> <<t>>] | [kind |-> "IndexError"] |   *)
(*        [kind |-> "exc:<Name>"]                                           *)
(* The count is computed once (Prepare), then one step per recorded call;   *)
(* the first disallowed reply of each call is reported with its clause.     *)
(***************************************************************************)
EXTENDS BigForest
Cases == JsonDeserialize(IOEnv.CASES_FILE)
VARIABLES cid, l, cnt, obs, bad
vars == <<cid, l, cnt, obs, bad>>
C == Cases[cid]
FN == C.nodes
Root == C.root
Trace == C.trace
e == Trace[l]
NotYet == <<-1>>
Ready == cnt # NotYet
WellFormed == Root \in DOMAIN FN /\ Topo(FN) /\ \A n \in DOMAIN FN : Len(FN[n].alts) > 0

\* obs: set of <<index limbs, tree>> revealed so far
Seen(idx) == { p \in obs : p[1] = idx }
GetClause(idx, r) ==
  IF ~Canon(idx) THEN "harness:index-not-canonical"
  ELSE IF ~BigLess(idx, cnt) THEN (IF r.kind = "IndexError" THEN "ok" ELSE "C03:big:index-beyond-len-does-not-raise-IndexError")
  ELSE IF r.kind # "tree" THEN "C03:big:valid-index-raises"
  ELSE IF ~Rep(FN, r.tree, Root) THEN "C03:big:tree-not-represented-by-the-forest"
  ELSE IF \E p \in Seen(idx) : p[2] # r.tree THEN "C03:big:index-denotes-different-trees-across-accesses"
  ELSE IF \E p \in obs : p[1] # idx /\ p[2] = r.tree THEN "C03:big:two-indices-denote-the-same-tree"
  ELSE "ok"
RECURSIVE IterClause(_, _, _)
IterClause(ts, i, idx) ==       \* the i-th tree of an iteration prefix is the tree of index i-1
  IF i > Len(ts) THEN "ok"
  ELSE LET c == GetClause(idx, [kind |-> "tree", tree |-> ts[i]]) IN
       IF c # "ok" THEN c ELSE IterClause(ts, i+1, BigAdd(idx, One))
Clause ==
  CASE e.op = "solutions" -> IF e.r.kind = "int" /\ e.r.v = cnt THEN "ok" ELSE "C03:big:solutions"
    [] e.op = "len" -> IF e.r.kind = "int" /\ e.r.v = cnt THEN "ok"
                       \* more trees than sys.maxsize: Python's len() cannot report that (OverflowError is the language's reply)
                       ELSE IF e.r.kind = "exc:OverflowError" /\ BigLess(MaxSize, cnt) THEN "ok"
                       ELSE "C03:big:len"
    [] e.op = "ambiguities" -> IF e.r.kind = "int" /\ e.r.v = ToBig(Cardinality(AmbNodes(FN))) THEN "ok" ELSE "C03:big:ambiguities"
    [] e.op \in {"lazy", "nonlazy", "getitem"} -> GetClause(e.idx, e.r)
    [] e.op = "first" -> GetClause(<<>>, e.r)
    [] e.op = "iter3" -> IF e.r.kind # "trees" THEN "C03:big:iteration-raises"
                         ELSE IF BigLess(<<2>>, cnt) /\ Len(e.r.trees) # 3 THEN "C03:big:iteration-stops-early"
                         ELSE IterClause(e.r.trees, 1, <<>>)
    [] OTHER -> "harness:unknown-op"
Reveal ==
  IF e.op \in {"lazy", "nonlazy", "getitem"} /\ e.r.kind = "tree" THEN { <<e.idx, e.r.tree>> }
  ELSE IF e.op = "first" /\ e.r.kind = "tree" THEN { <<<<>>, e.r.tree>> }
  ELSE IF e.op = "iter3" /\ e.r.kind = "trees" THEN { <<IF i = 1 THEN <<>> ELSE <<i - 1>>, e.r.trees[i]>> : i \in DOMAIN e.r.trees }
  ELSE {}
Prepare == ~Ready /\ UNCHANGED <<cid, l, obs>> /\
           IF WellFormed THEN cnt' = BigCounts(FN)[Root] /\ UNCHANGED bad
           ELSE cnt' = <<>> /\ bad' = { <<0, "harness:dag-not-kids-first">> }
Step == /\ Ready /\ l <= Len(Trace) /\ (~\E b \in bad : b[1] = 0) /\ l' = l + 1 /\ UNCHANGED <<cid, cnt>>
        /\ bad' = IF Clause = "ok" THEN bad ELSE bad \cup { <<l, Clause>> }
        /\ obs' = IF Clause = "ok" THEN obs \cup Reveal ELSE obs
Init == cid \in DOMAIN Cases /\ l = 1 /\ cnt = NotYet /\ obs = {} /\ bad = {}
Spec == Init /\ [][Prepare \/ Step]_vars
Report == (Ready /\ (l > Len(Trace) \/ \E b \in bad : b[1] = 0)) => PrintT(<<"VERDICT", C.cix, bad, cnt, Len(FN)>>)
=============================================================================
