----------------------------- MODULE ActCheck -----------------------------
(***************************************************************************)
(* C09: the three routes of running semantic actions (during LR parsing;    *)
(* build_tree + call_actions; GLR single tree + call_actions) must each     *)
(* equal Actions!Eval of the derivation tree (code -> spec).                *)
(***************************************************************************)
EXTENDS Actions, TLC, Json, IOUtils
Cases == JsonDeserialize(IOEnv.CASES_FILE)
VARIABLES cid, phase, verdict
vars == <<cid, phase, verdict>>
C == Cases[cid]
Tact == { C.tact[i] : i \in DOMAIN C.tact }
\* LR places an empty match before the layout that follows it, GLR after it (both within C08), so the spans
\* handed to actions may differ between the LR routes and the GLR route: each route is compared with Eval of ITS OWN
\* tree including spans, and the routes are compared with each other with spans stripped.
RECURSIVE Strip(_)
Strip(v) == CASE v[1] = "l" -> <<"l", [ i \in DOMAIN v[2] |-> Strip(v[2][i]) ]>>
              [] v[1] = "c" -> <<"c", v[2], v[3], Strip(v[4]), [ i \in DOMAIN v[5] |-> <<v[5][i][1], Strip(v[5][i][2])>> ]>>
              [] v[1] = "o" -> <<"o", v[2], [ i \in DOMAIN v[3] |-> <<v[3][i][1], Strip(v[3][i][2])>> ]>>
              [] v[1] = "tc" -> <<"tc", v[2], Strip(v[3])>>
              [] OTHER -> v
Clauses ==
  LET want == Eval(C.prods, C.akind, C.assign, Tact, C.tree)
      gwant == Eval(C.prods, C.akind, C.assign, Tact, C.gtree) IN
      (IF C.r1.ok /\ C.r1.v # want THEN {"C09:actions-during-parsing"} ELSE {})
 \cup (IF C.r2.ok /\ C.r2.v # want THEN {"C09:build-tree-then-call-actions"} ELSE {})
 \cup (IF C.r3.ok /\ C.r3.v # gwant THEN {"C09:glr-tree-then-call-actions"} ELSE {})
 \cup (IF C.r3.ok /\ C.r1.ok /\ Strip(C.r3.v) # Strip(C.r1.v) THEN {"C09:glr-route-differs-from-lr-route"} ELSE {})
 \* fourth route: build_tree=True with call_actions_during_tree_build=True returns the TREE; calling the actions on the way must not change it
 \cup (IF C.r4.ok /\ C.r4.tree # C.tree THEN {"C09:tree-built-while-calling-actions-differs-from-the-plain-tree"} ELSE {})
 \cup (IF ~C.r4.ok THEN {"C09:tree-build-with-actions-raises"} ELSE {})
 \cup (IF ~C.r1.ok THEN {"C09:actions-during-parsing-raises"} ELSE {})
 \cup (IF ~C.r2.ok THEN {"C09:call-actions-raises"} ELSE {})
 \cup (IF C.r3.single /\ ~C.r3.ok THEN {"C09:glr-call-actions-raises"} ELSE {})
Init == cid \in DOMAIN Cases /\ phase = 0 /\ verdict = <<>>
Check == phase = 0 /\ phase' = 1 /\ UNCHANGED cid
         /\ verdict' = <<Clauses, Eval(C.prods, C.akind, C.assign, Tact, C.tree)>>
Spec == Init /\ [][Check]_vars
Report == phase = 1 => PrintT(<<"VERDICT", C.cix, verdict[1]>>)
=============================================================================
