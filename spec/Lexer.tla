------------------------------- MODULE Lexer -------------------------------
(***************************************************************************)
(* Scanner and lexical disambiguation (DESIGN 3.2, 7 C07).                  *)
(*                                                                         *)
(* A terminal configuration is a function T on ids 1..n of records          *)
(*   [kind \in {"str","kw","re","custom"}, prior, prefer, mark \in          *)
(*    {"none","finish","nofinish"}, slen (text length of str/kw, else 0),    *)
(*    nrank (rank of the name in string order), mlen (length matched at the *)
(*    position, 0 = no match)]                                              *)
(* Doc(T, ld)   the DOCUMENTED choice: highest priority, then strings and    *)
(*              keywords over other recognizers, then longest match, then    *)
(*              prefer; with lexical disambiguation off every matching       *)
(*              terminal of the highest matching priority.                   *)
(* Impl(T, ld)  the IMPLEMENTATION-SHAPED scanner: candidates in table order *)
(*              (priority, string length, name; all descending), finish      *)
(*              flags, early exit when the priority drops and something was  *)
(*              found, then longest match and prefer.                        *)
(* Both return the SET of terminals pursued (one = the token, several =      *)
(* DisambiguationError / GLR forks, none = SyntaxError).                     *)
(*                                                                         *)
(* Design-level theorem (Lexer.cfg, exhaustive): Impl = Doc for every        *)
(* configuration without explicit marks in which two string terminals of     *)
(* the same length never match together (WellFormed).                        *)
(***************************************************************************)
EXTENDS Naturals, Sequences, FiniteSets

IsStr(t) == t.kind \in {"str", "kw"}
Ids(T) == DOMAIN T
Matching(T) == { i \in Ids(T) : T[i].mlen > 0 }
MaxOf(S) == CHOOSE m \in S : \A x \in S : x <= m

\* ---------------------------------------------------------------- documented choice
Doc(T, ld) ==
  LET M == Matching(T) IN
  IF M = {} THEN {}
  ELSE LET m1 == { i \in M : T[i].prior = MaxOf({ T[j].prior : j \in M }) } IN
       IF ~ld THEN m1
       ELSE LET m2 == IF \E i \in m1 : IsStr(T[i]) THEN { i \in m1 : IsStr(T[i]) } ELSE m1
                m3 == { i \in m2 : T[i].mlen = MaxOf({ T[j].mlen : j \in m2 }) }
            IN IF Cardinality(m3) > 1 /\ \E i \in m3 : T[i].prefer THEN { i \in m3 : T[i].prefer } ELSE m3

\* ---------------------------------------------------------------- implementation shape
Key(t) == t.prior * 1000 + 500 + t.slen
Before(T, i, j) == Key(T[i]) > Key(T[j]) \/ (Key(T[i]) = Key(T[j]) /\ T[i].nrank > T[j].nrank)
\* the table order: a permutation of the ids sorted by (key, name) descending
SpecOrder(T) ==
  LET n == Cardinality(Ids(T)) IN
  [ k \in 1..n |-> CHOOSE i \in Ids(T) : Cardinality({ j \in Ids(T) : Before(T, j, i) }) = k - 1 ]
\* finish flags as calc_finish_flags computes them over that order (the flag list of one state)
SpecFlags(T, ord, ld) ==
  LET n == Len(ord) IN
  [ k \in 1..n |->
      IF ~ld THEN FALSE
      ELSE IF T[ord[k]].mark = "finish" THEN TRUE
      ELSE IF T[ord[k]].mark = "nofinish" THEN FALSE
      ELSE (k < n /\ T[ord[k+1]].prior # 0 /\ T[ord[k]].prior > T[ord[k+1]].prior) \/ IsStr(T[ord[k]]) ]

RECURSIVE ScanFrom(_, _, _, _, _, _)
ScanFrom(T, ord, flags, k, toks, lastPrior) ==
  IF k > Len(ord) THEN toks
  ELSE LET t == T[ord[k]] IN
       IF t.prior < lastPrior /\ toks # {} THEN toks
       ELSE IF t.mlen > 0
            THEN (IF flags[k] THEN toks \cup {ord[k]} ELSE ScanFrom(T, ord, flags, k+1, toks \cup {ord[k]}, t.prior))
            ELSE ScanFrom(T, ord, flags, k+1, toks, t.prior)

\* _lexical_disambiguation: longest match, then prefer
Disambiguate(T, toks) ==
  IF Cardinality(toks) <= 1 THEN toks
  ELSE LET m3 == { i \in toks : T[i].mlen = MaxOf({ T[j].mlen : j \in toks }) } IN
       IF Cardinality(m3) = 1 THEN m3
       ELSE IF \E i \in m3 : T[i].prefer THEN { i \in m3 : T[i].prefer } ELSE m3

ImplWith(T, ord, flags, ld) ==
  LET scanned == ScanFrom(T, ord, flags, 1, {}, 0) IN IF ld THEN Disambiguate(T, scanned) ELSE scanned
Impl(T, ld) == LET ord == SpecOrder(T) IN ImplWith(T, ord, SpecFlags(T, ord, ld), ld)

\* two string terminals of the same length cannot both match (distinct texts, case-sensitive)
WellFormed(T) ==
  /\ \A i \in Ids(T) : IF IsStr(T[i]) THEN T[i].slen > 0 /\ T[i].mlen \in {0, T[i].slen} ELSE T[i].slen = 0
  /\ \A i, j \in Ids(T) : (i # j /\ IsStr(T[i]) /\ IsStr(T[j]) /\ T[i].mlen > 0 /\ T[j].mlen > 0) => T[i].slen # T[j].slen
Unmarked(T) == \A i \in Ids(T) : T[i].mark = "none"
=============================================================================
