------------------------------- MODULE Cache -------------------------------
(***************************************************************************)
(* The LR table cache protocol on disk (DESIGN 3.7, 7 C12): machine +       *)
(* reference.  The MACHINE says what the code does, step by step            *)
(* (tables/__init__.py create_load_table, tables/persist.py save_table,     *)
(* parser.py _check_parser, cli.py compile): the cache decision looks at    *)
(* existence and modification times only, the options a table was written   *)
(* under are not part of the file, the file is written in place (a crash    *)
(* leaves a strict prefix), an undecodable file is treated as absent.       *)
(* The REFERENCE says what transparency demands: every completed            *)
(* construction yields Fresh(current grammar text, requested options).      *)
(*                                                                         *)
(* Every replayable action is a named top-level disjunct of Next with its   *)
(* arguments; `obs` = "<reply>|<cache state>|<cache writer>" is what the    *)
(* replay harness compares with the projection of the real directory after  *)
(* every step (spec -> code).                                               *)
(***************************************************************************)
EXTENDS Naturals, Sequences, TLC
CONSTANTS Files,       \* the grammar files: the root, a directly imported one, one imported only transitively
          Opts,        \* option sets a parser can be constructed with, e.g. {"lr", "glr", "slr"}
          Unresolved,  \* option sets whose tables keep conflicts (GLR defaults, pglr compile): loading one into an LR parser fails its conflict check
          LRKinds,     \* option sets that are LR parsers (run the conflict check)
          MaxSteps
VARIABLES clock, files, pgc, last, n, obs
vars == <<clock, files, pgc, last, n, obs>>

Vers == [ f \in Files |-> files[f].ver ]          \* the content version vector of the grammar text
Absent == [st |-> "absent", mtime |-> 0, writer |-> "-", vers |-> [ f \in Files |-> 0 ]]
Init == /\ clock = 2 /\ n = 0
        /\ files = [ f \in Files |-> [mtime |-> 1, ver |-> 0] ]
        /\ pgc = Absent /\ last = [op |-> "none"] /\ obs = "init|absent|-"
Tick == n < MaxSteps /\ clock' = clock + 1 /\ n' = n + 1
Fresh(o) == [opts |-> o, vers |-> Vers]
\* the decision of create_load_table: use the file iff it exists and no grammar file is NEWER than it
UseCache == pgc.st # "absent" /\ \A f \in Files : pgc.mtime >= files[f].mtime
Written(o) == [st |-> "complete", mtime |-> clock, writer |-> o, vers |-> Vers]

Construct(o) ==
  /\ Tick /\ UNCHANGED files
  /\ IF UseCache /\ pgc.st = "complete"
     THEN /\ UNCHANGED pgc
          /\ last' = IF o \in LRKinds /\ pgc.writer \in Unresolved
                     THEN [op |-> "construct", opts |-> o, result |-> "conflicts"]        \* _check_parser on the loaded table
                     ELSE [op |-> "construct", opts |-> o, result |-> "table", table |-> [opts |-> pgc.writer, vers |-> pgc.vers]]
     ELSE \* no usable cache (absent, older than a grammar file, or undecodable prefix): create and save
          /\ pgc' = Written(o)
          /\ last' = [op |-> "construct", opts |-> o, result |-> "table", table |-> Fresh(o)]
\* the process dies while save_table writes the file in place: a strict prefix stays on disk
ConstructCrash(o) ==
  /\ ~(UseCache /\ pgc.st = "complete") /\ Tick /\ UNCHANGED files
  /\ pgc' = [Written(o) EXCEPT !.st = "prefix"]
  /\ last' = [op |-> "crash", opts |-> o]
\* pglr compile: force_create with the command line's options: w = "cli" (no flag: nothing resolved) or "clips" (--prefer-shifts alone:
\* shift/EMPTY-reduction conflicts stay); the table written is the one a parser with those very options computes
PglrCompile(w) ==
  /\ Tick /\ UNCHANGED files
  /\ pgc' = Written(w)
  /\ last' = [op |-> "compile"]
Edit(f) == Tick /\ files' = [files EXCEPT ![f] = [mtime |-> clock, ver |-> @.ver + 1]] /\ UNCHANGED pgc /\ last' = [op |-> "edit"]
Touch(f) == Tick /\ files' = [files EXCEPT ![f].mtime = clock] /\ UNCHANGED pgc /\ last' = [op |-> "touch"]

Reply(l) ==
  IF l.op # "construct" THEN l.op
  ELSE IF l.result = "conflicts" THEN "error-conflicts"
  ELSE IF l.table = [opts |-> l.opts, vers |-> [ f \in Files |-> files'[f].ver ]] THEN "table-fresh"
  ELSE IF l.table.opts # l.opts THEN "table-other-options"
  ELSE "table-stale"
OU == obs' = Reply(last') \o "|" \o pgc'.st \o "|" \o pgc'.writer

DoConstruct(o) == Construct(o) /\ OU
DoCrash(o) == ConstructCrash(o) /\ OU
DoCompile(w) == PglrCompile(w) /\ OU
DoEdit(f) == Edit(f) /\ OU
DoTouch(f) == Touch(f) /\ OU
Next == (\E o \in Opts : DoConstruct(o)) \/ (\E o \in Opts : DoCrash(o)) \/ DoCompile("cli") \/ DoCompile("clips")
        \/ (\E f \in Files : DoEdit(f)) \/ (\E f \in Files : DoTouch(f))
Spec == Init /\ [][Next]_vars

\* ---- what transparency demands of every completed construction (C12); TLC finds the histories that break it
Transparent == (last.op = "construct") => (last.result = "table" /\ last.table = Fresh(last.opts))
\* weaker facts that DO hold for the machine (checked as invariants of the design):
NeverStale == (last.op = "construct" /\ last.result = "table") => last.table.vers = Vers
NeverFailsOnIncompleteFile == (last.op = "construct" /\ last.result # "table") => pgc.st = "complete"
CacheNeverOlderWhenUsed == (pgc.st = "complete") => \A f \in Files : pgc.vers[f] <= files[f].ver
=============================================================================
