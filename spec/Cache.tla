------------------------------- MODULE Cache -------------------------------
(***************************************************************************)
(* The LR table cache protocol on disk (DESIGN 3.7, 7 C12): machine +       *)
(* reference.  The MACHINE says what the code does, step by step            *)
(* (tables/__init__.py create_load_table, tables/persist.py save_table,     *)
(* parser.py _check_parser, cli.py compile): the cache decision looks at    *)
(* existence and modification times only, the options a table was written   *)
(* under are not part of the file, the file is written in place (a crash    *)
(* leaves a strict prefix), an undecodable file is treated as absent.       *)
(* The REFERENCE says what transparency demands: every completed            *)
(* construction yields Fresh(current grammar text, requested options).      *)
(*                                                                         *)
(* Every replayable action is a named top-level disjunct of Next with its   *)
(* arguments; `obs` = "<reply>|<cache state>|<cache writer>" is what the    *)
(* replay harness compares with the projection of the real directory after  *)
(* every step (spec -> code).                                               *)
(***************************************************************************)
EXTENDS Naturals, Sequences, TLC
CONSTANTS Opts,        \* option sets a parser can be constructed with, e.g. {"lr", "glr", "slr"}
          Unresolved,  \* option sets whose tables keep conflicts (GLR defaults, pglr compile): loading one into an LR parser fails its conflict check
          LRKinds,     \* option sets that are LR parsers (run the conflict check)
          MaxSteps
VARIABLES clock, root, imp, pgc, last, n, obs
vars == <<clock, root, imp, pgc, last, n, obs>>

Absent == [st |-> "absent", mtime |-> 0, writer |-> "-", rver |-> 0, iver |-> 0]
Init == /\ clock = 2 /\ n = 0
        /\ root = [mtime |-> 1, ver |-> 0] /\ imp = [mtime |-> 1, ver |-> 0]
        /\ pgc = Absent /\ last = [op |-> "none"] /\ obs = "init|absent|-"
Tick == n < MaxSteps /\ clock' = clock + 1 /\ n' = n + 1
Fresh(o) == [opts |-> o, rver |-> root.ver, iver |-> imp.ver]
\* the decision of create_load_table: use the file iff it exists and no grammar file is NEWER than it
UseCache == pgc.st # "absent" /\ pgc.mtime >= root.mtime /\ pgc.mtime >= imp.mtime
Written(o) == [st |-> "complete", mtime |-> clock, writer |-> o, rver |-> root.ver, iver |-> imp.ver]

Construct(o) ==
  /\ Tick /\ UNCHANGED <<root, imp>>
  /\ IF UseCache /\ pgc.st = "complete"
     THEN /\ UNCHANGED pgc
          /\ last' = IF o \in LRKinds /\ pgc.writer \in Unresolved
                     THEN [op |-> "construct", opts |-> o, result |-> "conflicts"]        \* _check_parser on the loaded table
                     ELSE [op |-> "construct", opts |-> o, result |-> "table", table |-> [opts |-> pgc.writer, rver |-> pgc.rver, iver |-> pgc.iver]]
     ELSE \* no usable cache (absent, older than a grammar file, or undecodable prefix): create and save
          /\ pgc' = Written(o)
          /\ last' = [op |-> "construct", opts |-> o, result |-> "table", table |-> Fresh(o)]
\* the process dies while save_table writes the file in place: a strict prefix stays on disk
ConstructCrash(o) ==
  /\ ~(UseCache /\ pgc.st = "complete") /\ Tick /\ UNCHANGED <<root, imp>>
  /\ pgc' = [Written(o) EXCEPT !.st = "prefix"]
  /\ last' = [op |-> "crash", opts |-> o]
\* pglr compile: force_create with the command line's (unresolved) options
PglrCompile ==
  /\ Tick /\ UNCHANGED <<root, imp>>
  /\ pgc' = Written("cli")
  /\ last' = [op |-> "compile"]
EditRoot == Tick /\ root' = [mtime |-> clock, ver |-> root.ver + 1] /\ UNCHANGED <<imp, pgc>> /\ last' = [op |-> "edit-root"]
EditImp == Tick /\ imp' = [mtime |-> clock, ver |-> imp.ver + 1] /\ UNCHANGED <<root, pgc>> /\ last' = [op |-> "edit-imp"]
TouchRoot == Tick /\ root' = [root EXCEPT !.mtime = clock] /\ UNCHANGED <<imp, pgc>> /\ last' = [op |-> "touch-root"]
TouchImp == Tick /\ imp' = [imp EXCEPT !.mtime = clock] /\ UNCHANGED <<root, pgc>> /\ last' = [op |-> "touch-imp"]

Reply(l) ==
  IF l.op # "construct" THEN l.op
  ELSE IF l.result = "conflicts" THEN "error-conflicts"
  ELSE IF l.table = [opts |-> l.opts, rver |-> root'.ver, iver |-> imp'.ver] THEN "table-fresh"
  ELSE IF l.table.opts # l.opts THEN "table-other-options"
  ELSE "table-stale"
OU == obs' = Reply(last') \o "|" \o pgc'.st \o "|" \o pgc'.writer

DoConstruct(o) == Construct(o) /\ OU
DoCrash(o) == ConstructCrash(o) /\ OU
DoCompile == PglrCompile /\ OU
DoEditRoot == EditRoot /\ OU
DoEditImp == EditImp /\ OU
DoTouchRoot == TouchRoot /\ OU
DoTouchImp == TouchImp /\ OU
Next == (\E o \in Opts : DoConstruct(o)) \/ (\E o \in Opts : DoCrash(o)) \/ DoCompile
        \/ DoEditRoot \/ DoEditImp \/ DoTouchRoot \/ DoTouchImp
Spec == Init /\ [][Next]_vars

\* ---- what transparency demands of every completed construction (C12); TLC finds the histories that break it
Transparent == (last.op = "construct") => (last.result = "table" /\ last.table = Fresh(last.opts))
\* weaker facts that DO hold for the machine (checked as invariants of the design):
NeverStale == (last.op = "construct" /\ last.result = "table") => (last.table.rver = root.ver /\ last.table.iver = imp.ver)
NeverFailsOnIncompleteFile == (last.op = "construct" /\ last.result # "table") => pgc.st = "complete"
CacheNeverOlderWhenUsed == (pgc.st = "complete") => (pgc.rver <= root.ver /\ pgc.iver <= imp.ver)
=============================================================================
