SPECIFICATION BSpec
CONSTANT RetryOthers = TRUE
INVARIANT Bounded
INVARIANT Faithful
PROPERTY Terminates
CHECK_DEADLOCK FALSE
