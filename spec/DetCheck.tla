----------------------------- MODULE DetCheck -----------------------------
(***************************************************************************)
(* C16: determinism across processes and string-hash seeds.  One case = one *)
(* grammar built in fresh interpreters under several PYTHONHASHSEED values  *)
(* (twice per process).  obs[s] = what process s observed: digests of the   *)
(* serialised table (sorted keys, and in object order), the conflict        *)
(* reports, and for ambiguous inputs the trees in index order.  All         *)
(* observations must be one value.                                          *)
(***************************************************************************)
EXTENDS Naturals, Sequences, FiniteSets, TLC, Json, IOUtils
Cases == JsonDeserialize(IOEnv.CASES_FILE)
VARIABLES cid, phase
C == Cases[cid]
S == DOMAIN C.obs
Clauses ==
      (IF \E s \in S : C.obs[s].t1.sha # C.obs[s].t2.sha \/ C.obs[s].t1.shaorder # C.obs[s].t2.shaorder THEN {"C16:repeated-construction-in-one-process-differs"} ELSE {})
 \cup (IF Cardinality({ C.obs[s].t1.sha : s \in S }) > 1 THEN {"C16:serialised-table-differs-across-hash-seeds"} ELSE {})
 \cup (IF Cardinality({ C.obs[s].t1.shaorder : s \in S }) > 1 THEN {"C16:table-object-order-differs-across-hash-seeds"} ELSE {})
 \cup (IF Cardinality({ <<C.obs[s].t1.sr, C.obs[s].t1.rr>> : s \in S }) > 1 THEN {"C16:conflict-report-differs-across-hash-seeds"} ELSE {})
 \cup (IF Cardinality({ C.obs[s].forests : s \in S }) > 1 THEN {"C16:forest-index-order-differs-across-hash-seeds"} ELSE {})
 \cup (IF \E s \in S : C.obs[s].forests # C.obs[s].forests2 THEN {"C16:second-construction-or-cached-table-changes-forest-order"} ELSE {})
 \cup (IF Cardinality({ C.obs[s].err : s \in S }) > 1 THEN {"C16:construction-outcome-differs-across-hash-seeds"} ELSE {})
Init == cid \in DOMAIN Cases /\ phase = 0
Next == phase = 0 /\ phase' = 1 /\ UNCHANGED cid
Spec == Init /\ [][Next]_<<cid, phase>>
Report == phase = 1 => PrintT(<<"VERDICT", C.cix, Clauses, Cardinality(S)>>)
=============================================================================
