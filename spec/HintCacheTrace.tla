--------------------------- MODULE HintCacheTrace ---------------------------
(***************************************************************************)
(* Trace validation for HintCache.tla, both directions as for CacheTrace:   *)
(* the paths are TLC's own state graph of HintCache, each replayed on a     *)
(* real grammar directory with an error-examples file; what the REAL        *)
(* constructor replied (which hints the parser carries, judged against the  *)
(* hints compiled in a directory without any cache) and what it left on     *)
(* disk comes back as a trace that must be a behaviour of the machine.      *)
(* For every completed construction TLC evaluates the reference             *)
(* `Transparent` on the real reply and names the cause from the machine.    *)
(***************************************************************************)
EXTENDS HintCache, Json, IOUtils, FiniteSets
Cases == JsonDeserialize(IOEnv.CASES_FILE)
VARIABLES cid, l, verdict, nt, dv
tvars == <<vars, cid, l, verdict, nt, dv>>
C == Cases[cid]
Trace == C.trace
e == Trace[l]
Act ==
  \/ (e.act = "DoConstruct" /\ DoConstruct(e.arg))
  \/ (e.act = "DoCrash" /\ DoCrash(e.arg))
  \/ (e.act = "DoEdit" /\ DoEdit(e.arg))
  \/ (e.act = "DoTouch" /\ DoTouch(e.arg))
  \/ (e.act = "DoEditHints" /\ DoEditHints)
Matches == /\ e.reply = Reply(last')
           /\ e.pst = pgec'.st
           /\ (pgec'.st = "complete" => e.writer = pgec'.writer)
Cause == IF pgec.st = "complete" /\ UseHints /\ pgec.writer # e.arg THEN "hints-compiled-by-a-parser-of-another-kind"
         ELSE IF pgec.st = "prefix" THEN "incomplete-hints-file"
         ELSE IF pgec.st = "complete" /\ UseHints /\ (pgec.vers # Vers \/ pgec.hver # hfile.ver) THEN "stale-hints-accepted"
         ELSE "no-cause-in-the-model"
\* A step whose observation differs from the machine's is recorded once (verdict, dv = its position) and the replay GOES ON from the machine's
\* state: the replies of later constructions are still judged against the reference (round-5 seeded change C12-i: an interrupted rewrite in
\* place left the complete OLD table under a new mtime; the divergence is at the crash, the harm at the next construction).
TStep ==
  /\ verdict \in {"ok", "trace-diverges-from-machine"} /\ l <= Len(Trace)
  /\ Act
  /\ l' = l + 1 /\ UNCHANGED cid
  /\ verdict' = IF Matches THEN verdict ELSE "trace-diverges-from-machine"
  /\ dv' = IF ~Matches /\ dv = 0 THEN l ELSE dv
  /\ nt' = IF e.act = "DoConstruct" /\ e.reply # "hints-fresh" THEN nt \cup { <<l, e.reply, IF dv = 0 THEN Cause ELSE "after-a-step-the-machine-does-not-explain">> } ELSE nt
\* an action the machine does not even enable (e.g. a crash while the cache is used) ends the case
TStuck == verdict \in {"ok", "trace-diverges-from-machine"} /\ l <= Len(Trace) /\ ~ENABLED Act /\ verdict' = "action-not-enabled-in-machine"
          /\ dv' = IF dv = 0 THEN l ELSE dv /\ UNCHANGED <<vars, cid, l, nt>>
TInit == Init /\ cid \in DOMAIN Cases /\ l = 1 /\ verdict = "ok" /\ nt = {} /\ dv = 0
TSpec == TInit /\ [][TStep \/ TStuck]_tvars
\* reported once per case: at the end of the trace, or where the machine got stuck; dv = position of the first step it does not explain (0: none)
Report == (verdict = "action-not-enabled-in-machine" \/ l > Len(Trace)) => PrintT(<<"VERDICT", C.cix, verdict, dv, nt>>)
=============================================================================
