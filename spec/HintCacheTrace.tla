--------------------------- MODULE HintCacheTrace ---------------------------
(***************************************************************************)
(* Trace validation for HintCache.tla, both directions as for CacheTrace:   *)
(* the paths are TLC's own state graph of HintCache, each replayed on a     *)
(* real grammar directory with an error-examples file; what the REAL        *)
(* constructor replied (which hints the parser carries, judged against the  *)
(* hints compiled in a directory without any cache) and what it left on     *)
(* disk comes back as a trace that must be a behaviour of the machine.      *)
(* For every completed construction TLC evaluates the reference             *)
(* `Transparent` on the real reply and names the cause from the machine.    *)
(***************************************************************************)
EXTENDS HintCache, Json, IOUtils, FiniteSets
Cases == JsonDeserialize(IOEnv.CASES_FILE)
VARIABLES cid, l, verdict, nt
tvars == <<vars, cid, l, verdict, nt>>
C == Cases[cid]
Trace == C.trace
e == Trace[l]
Act ==
  \/ (e.act = "DoConstruct" /\ DoConstruct(e.arg))
  \/ (e.act = "DoCrash" /\ DoCrash(e.arg))
  \/ (e.act = "DoEdit" /\ DoEdit(e.arg))
  \/ (e.act = "DoTouch" /\ DoTouch(e.arg))
  \/ (e.act = "DoEditHints" /\ DoEditHints)
Matches == /\ e.reply = Reply(last')
           /\ e.pst = pgec'.st
           /\ (pgec'.st = "complete" => e.writer = pgec'.writer)
Cause == IF pgec.st = "complete" /\ UseHints /\ pgec.writer # e.arg THEN "hints-compiled-by-a-parser-of-another-kind"
         ELSE IF pgec.st = "prefix" THEN "incomplete-hints-file"
         ELSE IF pgec.st = "complete" /\ UseHints /\ (pgec.vers # Vers \/ pgec.hver # hfile.ver) THEN "stale-hints-accepted"
         ELSE "no-cause-in-the-model"
TStep ==
  /\ verdict = "ok" /\ l <= Len(Trace)
  /\ Act
  /\ l' = l + 1 /\ UNCHANGED cid
  /\ verdict' = IF Matches THEN "ok" ELSE "trace-diverges-from-machine"
  /\ nt' = IF e.act = "DoConstruct" /\ e.reply # "hints-fresh" THEN nt \cup { <<l, e.reply, Cause>> } ELSE nt
TStuck == verdict = "ok" /\ l <= Len(Trace) /\ ~ENABLED Act /\ verdict' = "action-not-enabled-in-machine" /\ UNCHANGED <<vars, cid, l, nt>>
TInit == Init /\ cid \in DOMAIN Cases /\ l = 1 /\ verdict = "ok" /\ nt = {}
TSpec == TInit /\ [][TStep \/ TStuck]_tvars
Report == (verdict # "ok" \/ l > Len(Trace)) => PrintT(<<"VERDICT", C.cix, verdict, l, nt>>)
=============================================================================
