SPECIFICATION Spec
CONSTANTS Kinds = {"lr", "glr", "slr", "lrrec", "glrrec", "lrld0", "glrld1"}
  FailKinds = {"conflict"}
  Inputs = {"ok", "bad", "act", "rec", "recerr", "kw", "empty", "rec2", "rec3"}
  MaxSteps = 7
INVARIANT AugRestored
INVARIANT Emit
CHECK_DEADLOCK FALSE
