---------------------------- MODULE FilterCheck ----------------------------
(***************************************************************************)
(* The dynamic disambiguation filter protocol (DESIGN 3.4/3.5 FilterCall,   *)
(* 7 C18), checked on recorded runs (code -> spec).  The environment (the   *)
(* harness) supplies the filter; it records every call                      *)
(*   [a |-> "I" | "S" | "R", p, sym, pos, spans, ret, allnone]              *)
(* and answers from a policy chosen by the case.  TLC checks, against the   *)
(* returned tree(s):                                                        *)
(*   FilterInitOnce    first call is the all-None initialisation, only it    *)
(*   FilterOnlyMarked  every other call is a shift of a dynamic terminal or  *)
(*                     a reduction by a dynamic production                   *)
(*   AcceptedTaken /   every marked reduction (shift) present in a returned  *)
(*   SeesEveryMarked   tree was asked with that production and the spans of  *)
(*                     its sub-results, and accepted                         *)
(*   RejectedNotTaken  no returned tree contains a decision that was only    *)
(*                     ever rejected                                         *)
(*   AcceptAll = NoFilter,  RejectP = NoFilter minus the trees using p       *)
(***************************************************************************)
EXTENDS Naturals, Sequences, FiniteSets, TLC, Json, IOUtils

Cases == JsonDeserialize(IOEnv.CASES_FILE)
VARIABLES cid, phase, verdict
vars == <<cid, phase, verdict>>
C == Cases[cid]
Dyn(p) == C.dynprods[p+1]
DynTerms == { C.dynterms[i] : i \in DOMAIN C.dynterms }
Calls == C.calls
IsT(n) == n.k = "T"

RECURSIVE NodesOf(_)
RECURSIVE NodesOfSeq(_, _)
NodesOfSeq(cs, i) == IF i > Len(cs) THEN {} ELSE NodesOf(cs[i]) \cup NodesOfSeq(cs, i+1)
\* every reduction <<"R", p, child spans>> and every leaf <<"S", t, start>> of a tree
NodesOf(n) == IF IsT(n) THEN { <<"S", n.t, n.s>> }
              ELSE { <<"R", n.p, [ i \in DOMAIN n.c |-> <<n.c[i].s, n.c[i].e>> ]>> } \cup NodesOfSeq(n.c, 1)
RECURSIVE Shape(_)
Shape(n) == IF IsT(n) THEN <<"T", n.t, n.s, n.e>> ELSE <<"N", n.p, [ i \in DOMAIN n.c |-> Shape(n.c[i]) ]>>
Uses(n, p) == \E x \in NodesOf(n) : x[1] = "R" /\ x[2] = p

Trees == { C.trees[i] : i \in DOMAIN C.trees }
Plain == { C.plain[i] : i \in DOMAIN C.plain }
Decisions == UNION { NodesOf(t) : t \in Trees }
CallKey(c) == IF c.a = "R" THEN <<"R", c.p, c.spans>> ELSE <<"S", c.sym, c.pos>>
Accepted == { CallKey(Calls[i]) : i \in { j \in DOMAIN Calls : Calls[j].a # "I" /\ Calls[j].ret } }
Rejected == { CallKey(Calls[i]) : i \in { j \in DOMAIN Calls : Calls[j].a # "I" /\ ~Calls[j].ret } }
Marked(d) == IF d[1] = "R" THEN Dyn(d[2]) ELSE d[2] \in DynTerms

Clauses ==
      (IF Len(Calls) = 0 \/ Calls[1].a # "I" \/ ~Calls[1].allnone THEN {"C18:no-initial-all-none-call"} ELSE {})
 \cup (IF \E i \in DOMAIN Calls : i > 1 /\ Calls[i].a = "I" THEN {"C18:initial-call-repeated"} ELSE {})
 \cup (IF \E i \in DOMAIN Calls : Calls[i].a = "R" /\ ~Dyn(Calls[i].p) THEN {"C18:unmarked-reduction-asked"} ELSE {})
 \cup (IF \E i \in DOMAIN Calls : Calls[i].a = "S" /\ Calls[i].sym \notin DynTerms THEN {"C18:unmarked-shift-asked"} ELSE {})
 \cup (IF \E d \in Decisions : d[1] = "R" /\ Marked(d) /\ d \notin Accepted THEN {"C18:marked-reduction-taken-without-accepting-call"} ELSE {})
 \cup (IF \E d \in Decisions : d[1] = "S" /\ Marked(d) /\ d \notin Accepted THEN {"C18:marked-shift-taken-without-accepting-call"} ELSE {})
 \cup (IF \E d \in Decisions : Marked(d) /\ d \in Rejected /\ d \notin Accepted THEN {"C18:rejected-action-taken"} ELSE {})
 \cup (IF C.policy = "accept" /\ C.kind # C.plainkind THEN {"C18:accept-all-changes-outcome"} ELSE {})
 \cup (IF C.policy = "accept" /\ { Shape(t) : t \in Trees } # { Shape(t) : t \in Plain } THEN {"C18:accept-all-changes-result"} ELSE {})
 \* "exactly the result": the same trees down to every node's layout_content and every token's value (finding D43: a reduction link of a
 \* GLR parser with a filter installed reported another layout_content than without one)
 \cup (IF C.policy = "accept" /\ { Shape(t) : t \in Trees } = { Shape(t) : t \in Plain } /\ Trees # Plain
       THEN {"C18:accept-all-changes-layout-content-or-values"} ELSE {})
 \cup (IF C.policy = "reject" /\ C.parser = "glr" /\ C.complete /\ C.kind \in {"trees", "syntax"}
          /\ { Shape(t) : t \in Trees } # { Shape(t) : t \in { u \in Plain : ~Uses(u, C.rejectp) } }
       THEN {"C18:reject-production-result"} ELSE {})
 \cup (IF C.policy = "reject" /\ \E t \in Trees : Uses(t, C.rejectp) THEN {"C18:rejected-production-in-result"} ELSE {})

Flags == [calls |-> Len(Calls), decisions |-> Cardinality({ d \in Decisions : Marked(d) }), trees |-> Cardinality(Trees)]
Init == cid \in DOMAIN Cases /\ phase = 0 /\ verdict = <<>>
Check == phase = 0 /\ phase' = 1 /\ UNCHANGED cid /\ verdict' = <<Clauses, Flags>>
Spec == Init /\ [][Check]_vars
Report == phase = 1 => PrintT(<<"VERDICT", C.cix, verdict[1], verdict[2]>>)
=============================================================================
