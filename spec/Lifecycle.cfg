SPECIFICATION Spec
CONSTANTS Kinds = {"lr", "glr", "lrrec", "glrrec", "lrld0"}
  FailKinds = {"conflict"}
  Inputs = {"ok", "bad", "act", "rec", "kw", "rec2", "rec3"}
  MaxSteps = 3
INVARIANT AugRestored
INVARIANT Emit
CHECK_DEADLOCK FALSE
