----------------------------- MODULE ForestAPI -----------------------------
(***************************************************************************)
(* The Forest object as an API machine (DESIGN 3.6 ForestAPI, 7 C03).       *)
(* Abstract state: the packed DAG (fn), and what the history has revealed   *)
(* about the index -> tree assignment (obs).  The documentation does not    *)
(* say WHICH tree an index denotes, so the machine only demands that        *)
(* i |-> forest[i] is an injection into the trees the DAG represents, the   *)
(* same for lazy, non-lazy, iterated and repeated access, that every index  *)
(* >= len raises IndexError, and that disambiguate (which removes           *)
(* alternatives) is followed by counts and trees of the pruned DAG.         *)
(* This module generates call histories (TLC enumerates them all up to      *)
(* MaxSteps); ForestAPITrace validates the replies of the real object.      *)
(***************************************************************************)
EXTENDS Naturals, Sequences, TLC
CONSTANTS Calls,     \* e.g. {"len", "solutions", "ambiguities", "first", "iter", "iter_nonlazy", "tostr"}
          Indexed,   \* calls taking an index: {"lazy", "nonlazy"}
          Indices,   \* symbolic indices {"0", "1", "mid", "last", "len", "len+1", "big"}
          Policies,  \* disambiguation policies {"keep-first", "keep-last"}
          MaxSteps
VARIABLES n, hist
Init == n = 0 /\ hist = <<>>
Tick(ev) == n < MaxSteps /\ n' = n + 1 /\ hist' = Append(hist, ev)
Call(c) == Tick(<<c, "">>)
Get(c, i) == Tick(<<c, i>>)
Disambiguate(p) == Tick(<<"disambiguate", p>>)
Next == (\E c \in Calls : Call(c)) \/ (\E c \in Indexed, i \in Indices : Get(c, i)) \/ (\E p \in Policies : Disambiguate(p))
Spec == Init /\ [][Next]_<<n, hist>>
Emit == n = MaxSteps => PrintT(<<"HIST", hist>>)
=============================================================================
