----------------------------- MODULE HintCache -----------------------------
(***************************************************************************)
(* The second cache of a grammar directory (DESIGN 3.7a, 7 C12): the        *)
(* compiled error hints <grammar>.pgec next to the error examples           *)
(* <grammar>.pge (parser.py _custom_error_hints).  Same shape as Cache.tla: *)
(* a MACHINE that says what the code does -- the decision looks at          *)
(* existence and modification times only, the kind of parser that compiled  *)
(* the hints is not part of the file, the file is written in place -- and   *)
(* the REFERENCE: every completed construction carries the hints a parser   *)
(* of its own kind compiles from the current grammar text and the current   *)
(* examples.  A hint is keyed by an LR state number, so hints compiled      *)
(* against another version of ANY grammar file are attached to the wrong    *)
(* states.                                                                  *)
(*                                                                         *)
(* Two switches name what the code did before findings D39 / D40 were       *)
(* repaired; HintCacheNeg*.cfg turn them off as negative controls.          *)
(***************************************************************************)
EXTENDS Naturals, Sequences, TLC
CONSTANTS Files,            \* the grammar files: the root and an imported one
          Root,             \* the root grammar file
          Kinds,            \* kinds of parser: {"lr", "glr"} (a GLR parser compiles hints for every active head)
          MaxSteps,
          ImportsCompared,  \* TRUE: the decision compares the .pgec with every grammar file (D39 repaired); FALSE: with the root only
          PrefixTolerated   \* TRUE: an undecodable .pgec is treated as absent (D40 repaired); FALSE: construction fails on it
VARIABLES clock, files, hfile, pgec, last, n, obs
vars == <<clock, files, hfile, pgec, last, n, obs>>

Vers == [ f \in Files |-> files[f].ver ]
Absent == [st |-> "absent", mtime |-> 0, writer |-> "-", vers |-> [ f \in Files |-> 0 ], hver |-> 0]
Init == /\ clock = 2 /\ n = 0
        /\ files = [ f \in Files |-> [mtime |-> 1, ver |-> 0] ]
        /\ hfile = [mtime |-> 1, ver |-> 0]
        /\ pgec = Absent /\ last = [op |-> "none"] /\ obs = "init|absent|-"
Tick == n < MaxSteps /\ clock' = clock + 1 /\ n' = n + 1
Fresh(k) == [kind |-> k, vers |-> Vers, hver |-> hfile.ver]
Compared == IF ImportsCompared THEN Files ELSE {Root}
\* the decision of _custom_error_hints: use the compiled file iff it exists and neither a grammar file nor the examples are NEWER
UseHints == pgec.st # "absent" /\ (\A f \in Compared : pgec.mtime >= files[f].mtime) /\ pgec.mtime >= hfile.mtime
Readable == pgec.st = "complete" \/ (pgec.st = "prefix" /\ ~PrefixTolerated)
Compiled(k) == [st |-> "complete", mtime |-> clock, writer |-> k, vers |-> Vers, hver |-> hfile.ver]

Construct(k) ==
  /\ Tick /\ UNCHANGED <<files, hfile>>
  /\ IF UseHints /\ pgec.st = "complete"
     THEN /\ UNCHANGED pgec
          /\ last' = [op |-> "construct", kind |-> k, result |-> "hints", hints |-> [kind |-> pgec.writer, vers |-> pgec.vers, hver |-> pgec.hver]]
     ELSE IF UseHints /\ pgec.st = "prefix" /\ ~PrefixTolerated
     THEN /\ UNCHANGED pgec
          /\ last' = [op |-> "construct", kind |-> k, result |-> "error"]                \* json.load on a strict prefix
     ELSE /\ pgec' = Compiled(k)
          /\ last' = [op |-> "construct", kind |-> k, result |-> "hints", hints |-> Fresh(k)]
\* the process dies while the compiled hints are written in place
ConstructCrash(k) ==
  /\ ~(UseHints /\ Readable) /\ Tick /\ UNCHANGED <<files, hfile>>
  /\ pgec' = [Compiled(k) EXCEPT !.st = "prefix"]
  /\ last' = [op |-> "crash", kind |-> k]
Edit(f) == Tick /\ files' = [files EXCEPT ![f] = [mtime |-> clock, ver |-> @.ver + 1]] /\ UNCHANGED <<pgec, hfile>> /\ last' = [op |-> "edit"]
Touch(f) == Tick /\ files' = [files EXCEPT ![f].mtime = clock] /\ UNCHANGED <<pgec, hfile>> /\ last' = [op |-> "touch"]
EditHints == Tick /\ hfile' = [mtime |-> clock, ver |-> hfile.ver + 1] /\ UNCHANGED <<pgec, files>> /\ last' = [op |-> "edithints"]

Reply(l) ==
  IF l.op # "construct" THEN l.op
  ELSE IF l.result = "error" THEN "error-undecodable"
  ELSE LET cur == [ f \in Files |-> files'[f].ver ] IN
       IF l.hints = [kind |-> l.kind, vers |-> cur, hver |-> hfile'.ver] THEN "hints-fresh"
       ELSE IF l.hints.vers = cur /\ l.hints.hver = hfile'.ver THEN "hints-other-kind"
       ELSE "hints-stale"
OU == obs' = Reply(last') \o "|" \o pgec'.st \o "|" \o pgec'.writer

DoConstruct(k) == Construct(k) /\ OU
DoCrash(k) == ConstructCrash(k) /\ OU
DoEdit(f) == Edit(f) /\ OU
DoTouch(f) == Touch(f) /\ OU
DoEditHints == EditHints /\ OU
Next == (\E k \in Kinds : DoConstruct(k)) \/ (\E k \in Kinds : DoCrash(k))
        \/ (\E f \in Files : DoEdit(f)) \/ (\E f \in Files : DoTouch(f)) \/ DoEditHints
Spec == Init /\ [][Next]_vars

\* ---- what transparency demands of every completed construction; the machine breaks it only through the writer's kind (finding D41)
Transparent == (last.op = "construct") => (last.result = "hints" /\ last.hints = Fresh(last.kind))
\* facts that hold for the machine as repaired (and fail in the negative controls):
HintsNeverStale == (last.op = "construct" /\ last.result = "hints") => (last.hints.vers = Vers /\ last.hints.hver = hfile.ver)
NeverFailsOnIncompleteFile == (last.op = "construct") => last.result = "hints"
=============================================================================
