----------------------------- MODULE BigForest -----------------------------
(***************************************************************************)
(* Forest API machine for forests with BIG-INTEGER counts (DESIGN 3.6, 7    *)
(* C03: "... and big-integer counts beyond it").  TLC integers are 32-bit,  *)
(* so naturals are little-endian sequences of limbs in base 1000 without    *)
(* trailing zeros (zero = <<>>); the number of trees a recorded DAG          *)
(* represents is computed exactly with them, and every reply of the real    *)
(* Forest object to len / solutions / ambiguities / get_tree(i) /           *)
(* get_nonlazy_tree(i) / get_first_tree / iteration is judged against it:   *)
(*    i <  count  =>  a tree the DAG represents, one tree per index, the    *)
(*                    same tree for lazy, non-lazy and repeated access,     *)
(*                    different trees for different indices                 *)
(*    i >= count  =>  IndexError                                            *)
(* The DAG must be recorded kids-first (every kid id smaller than its       *)
(* parent's): checked here (Topo), so that one ascending pass is exact.     *)
(***************************************************************************)
EXTENDS Forest, Integers, TLC, Json, IOUtils

B == 1000
D(x, i) == IF i <= Len(x) THEN x[i] ELSE 0
IsBig(x) == \A i \in DOMAIN x : x[i] \in 0..(B-1)
Canon(x) == IsBig(x) /\ (x = <<>> \/ x[Len(x)] # 0)
RECURSIVE AddFrom(_, _, _, _)
AddFrom(a, b, i, c) == IF i > Len(a) /\ i > Len(b) THEN (IF c = 0 THEN <<>> ELSE <<c>>)
                       ELSE LET s == D(a, i) + D(b, i) + c IN <<s % B>> \o AddFrom(a, b, i+1, s \div B)
BigAdd(a, b) == AddFrom(a, b, 1, 0)
RECURSIVE MulLimbFrom(_, _, _, _)
MulLimbFrom(a, d, i, c) == IF i > Len(a) THEN (IF c = 0 THEN <<>> ELSE <<c>>)       \* c < B always
                           ELSE LET s == a[i] * d + c IN <<s % B>> \o MulLimbFrom(a, d, i+1, s \div B)
MulLimb(a, d) == IF d = 0 \/ a = <<>> THEN <<>> ELSE MulLimbFrom(a, d, 1, 0)
RECURSIVE MulFrom(_, _, _)
\* a * (b[j..]) = a*b[j] + B * (a * b[j+1..])
MulFrom(a, b, j) == IF j > Len(b) THEN <<>>
                    ELSE LET rest == MulFrom(a, b, j+1)
                             sh == IF rest = <<>> THEN <<>> ELSE <<0>> \o rest
                         IN BigAdd(MulLimb(a, b[j]), sh)
BigMul(a, b) == IF a = <<>> \/ b = <<>> THEN <<>> ELSE MulFrom(a, b, 1)
RECURSIVE LessFrom(_, _, _)
LessFrom(a, b, i) == IF i = 0 THEN FALSE ELSE IF a[i] # b[i] THEN a[i] < b[i] ELSE LessFrom(a, b, i-1)
BigLess(a, b) == IF Len(a) # Len(b) THEN Len(a) < Len(b) ELSE LessFrom(a, b, Len(a))
One == <<1>>
ToBig(k) == IF k = 0 THEN <<>> ELSE IF k < B THEN <<k>> ELSE <<k % B, k \div B>>     \* k < 10^6
\* 2^63 - 1 = 9 223 372 036 854 775 807  (sys.maxsize: the most a Python len() can report)
MaxSize == <<807, 775, 854, 36, 372, 223, 9>>

\* ---------------------------------------------------------------- exact count of a kids-first DAG
Topo(FN) == \A n \in DOMAIN FN : \A i \in DOMAIN FN[n].alts :
               IsTok(FN[n].alts[i]) \/ \A j \in DOMAIN FN[n].alts[i].c : FN[n].alts[i].c[j] \in 1..(n-1)
RECURSIVE ProdBig(_, _, _)
ProdBig(f, kids, i) == IF i > Len(kids) THEN One ELSE BigMul(f[kids[i]], ProdBig(f, kids, i+1))
RECURSIVE SumBig(_, _, _, _)
SumBig(f, alts, idxs, i) ==
  IF i > Len(alts) THEN <<>>
  ELSE LET v == IF i \in idxs THEN (IF IsTok(alts[i]) THEN One ELSE ProdBig(f, alts[i].c, 1)) ELSE <<>>
       IN BigAdd(v, SumBig(f, alts, idxs, i+1))
RECURSIVE BuildCnt(_, _)
BuildCnt(FN, f) == IF Len(f) = Len(FN) THEN f
                   ELSE LET n == Len(f) + 1 IN BuildCnt(FN, Append(f, SumBig(f, FN[n].alts, FirstIdx(FN, n), 1)))
BigCounts(FN) == BuildCnt(FN, <<>>)

\* ---------------------------------------------------------------- is a tree one of those a node represents
\* A tree is a FLAT preorder sequence of records [k |-> "T", t, s, e, n |-> 0] / [k |-> "N", p, s, e, n |-> number of kids]
\* (nested JSON is limited to 255 levels by the reader; left-recursive lists are deeper than that).
\* RepEnd(FN, T, i, n) = the index just after the subtree that starts at T[i] if node n represents that subtree, else 0.
RECURSIVE RepEnd(_, _, _, _)
RECURSIVE KidsEnd(_, _, _, _, _)
RECURSIVE ScanAlts(_, _, _, _, _)
KidsEnd(FN, T, i, kids, j) ==        \* the kids j.. of an alternative against the subtrees starting at T[i]
  IF j > Len(kids) THEN i
  ELSE LET nxt == RepEnd(FN, T, i, kids[j]) IN IF nxt = 0 THEN 0 ELSE KidsEnd(FN, T, nxt, kids, j + 1)
\* the alternatives a.. of node n against the subtree at T[i]: the first that fits decides (each is tried once; a wrong one fails at a header)
ScanAlts(FN, T, i, n, a) ==
  IF a > Len(FN[n].alts) THEN 0
  ELSE LET alt == FN[n].alts[a]
           x == T[i]
           r == IF IsTok(alt) THEN (IF x.k = "T" /\ x.t = alt.t /\ x.s = alt.s /\ x.e = alt.e THEN i + 1 ELSE 0)
                ELSE IF x.k = "N" /\ x.p = alt.p /\ x.s = alt.s /\ x.e = alt.e /\ x.n = Len(alt.c) THEN KidsEnd(FN, T, i + 1, alt.c, 1) ELSE 0
       IN IF r # 0 THEN r ELSE ScanAlts(FN, T, i, n, a + 1)
RepEnd(FN, T, i, n) == IF i > Len(T) THEN 0 ELSE ScanAlts(FN, T, i, n, 1)
Rep(FN, T, n) == Len(T) > 0 /\ RepEnd(FN, T, 1, n) = Len(T) + 1
=============================================================================
