---------------------------- MODULE ResolvedWalk ----------------------------
(***************************************************************************)
(* Walk of a REAL, statically RESOLVED parglare LR table in lock-step with  *)
(* the canonical LR(1) automaton of the same grammar (as LRWalk.tla does    *)
(* for unresolved tables): in every product state <<real state, canonical   *)
(* item set>> and for every terminal the real cell must be what             *)
(* Resolve!ResolveCell makes of the unresolved cell, given the INTENDED     *)
(* production attributes (priority, associativity, nops, nopse -- taken     *)
(* from the generator that wrote the grammar text, not from the loaded      *)
(* grammar object) and the prefer-shift options of the call.                *)
(*                                                                         *)
(* parglare's LALR construction may keep states apart that pure LALR would  *)
(* merge, so the unresolved reductions of a real cell lie between the       *)
(* canonical ones (lo) and the LALR(1) ones (hi): the cell is accepted iff  *)
(* it is the resolution of lo \cup r for some r \subseteq hi \ lo.          *)
(* Order-sensitive cells (Resolve.tla) are counted, not judged.             *)
(***************************************************************************)
EXTENDS Resolve, TLC, Json, IOUtils, FiniteSets

Cases == JsonDeserialize(IOEnv.CASES_FILE)
VARIABLES cid, rs, I, ctx
vars == <<cid, rs, I, ctx>>
C == Cases[cid]
P == C.prods
A == C.attrs
Terms == { C.terms[i] : i \in DOMAIN C.terms }
TT == Terms \cup {"STOP"}
NoCtx == [none |-> TRUE]
G == ctx.G
Opt == [ps |-> C.ps, pse |-> C.pse]

RS(s) == C.real[s+1]
RActs(s, t) == IF t \in DOMAIN RS(s).actions THEN { RS(s).actions[t][i] : i \in DOMAIN RS(s).actions[t] } ELSE {}
RealShift(s, t) == \E a \in RActs(s, t) : a.a \in {"S", "A"}
RealReds(s, t) == { a.p + 1 : a \in { b \in RActs(s, t) : b.a = "R" } }
RShiftTo(s, t) == { a.to : a \in { b \in RActs(s, t) : b.a = "S" } }

Merged == UNION { T \in ctx.all : Core(T) = Core(I) }       \* the LALR(1) state of I's core
Complete == { x[1] : x \in { y \in I : y[2] = Len(P[y[1]].rhs) } }
Lo(t) == IF C.slr THEN { p \in Complete : t \in ctx.fol[P[p].lhs] } ELSE CanReduce(G, I, t)
Hi(t) == IF C.slr THEN Lo(t) ELSE CanReduce(G, Merged, t)
CellOK(t) ==
  \E r \in SUBSET (Hi(t) \ Lo(t)) :
     LET x == ResolveCell(G, A, I, t, Lo(t) \cup r, Opt) IN
     x.sensitive \/ (RealShift(rs, t) = x.shift /\ RealReds(rs, t) = x.reds)
Sensitive(t) == \E r \in SUBSET (Hi(t) \ Lo(t)) : ResolveCell(G, A, I, t, Lo(t) \cup r, Opt).sensitive
BadCells == { t \in TT : ~CellOK(t) }
StateClauses ==
      (IF \E t \in BadCells : RealShift(rs, t) # ResolveCell(G, A, I, t, Lo(t), Opt).shift THEN {"C06:table:shift-differs-from-resolution"} ELSE {})
 \cup (IF \E t \in BadCells : RealReds(rs, t) # ResolveCell(G, A, I, t, Lo(t), Opt).reds THEN {"C06:table:reductions-differ-from-resolution"} ELSE {})
Detail == [ cells |-> { <<t, RealShift(rs, t), RealReds(rs, t), ResolveCell(G, A, I, t, Lo(t), Opt)>> : t \in BadCells }, core |-> Kernel(I) ]

Init == cid \in DOMAIN Cases /\ rs = 0 /\ I = {} /\ ctx = NoCtx
Build == /\ ctx = NoCtx /\ UNCHANGED <<cid, rs>>
         /\ LET g == GrammarCtx(P) IN
            /\ ctx' = [G |-> g, all |-> AllLR1(g, Terms), fol |-> Follow(P)]
            /\ I' = I0(g)
\* follow the REAL table: a symbol is walked when the real state still offers it (a resolved-away shift ends the walk on that symbol)
Step(X) == /\ ctx # NoCtx /\ I # {} /\ X \in NextSyms(G, I) /\ X # "STOP"
           /\ IF X \in G.nts THEN X \in DOMAIN RS(rs).gotos /\ rs' = RS(rs).gotos[X]
              ELSE \E to \in RShiftTo(rs, X) : rs' = to
           /\ I' = Goto(G, I, X)
           /\ UNCHANGED <<cid, ctx>>
Next == Build \/ \E X \in NTs(P) \cup Terms : Step(X)
Spec == Init /\ [][Next]_vars

IsFirst == ctx # NoCtx /\ rs = 0 /\ I = I0(G)
Report ==
  /\ (ctx # NoCtx /\ I # {} /\ StateClauses # {}) => PrintT(<<"VERDICT", C.cix, StateClauses, rs, Detail>>)
  /\ (ctx # NoCtx /\ I # {} /\ \E t \in TT : Sensitive(t)) => PrintT(<<"SENSITIVE", C.cix, rs>>)
  /\ IsFirst => PrintT(<<"CASE", C.cix, Cardinality(ctx.all), Len(C.real)>>)
=============================================================================
