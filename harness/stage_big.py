"""C03 (big-integer counts): calls on real forests with more trees than 10^12 / 2^32 / 2^63, validated by BigForestCheck.tla.

The harness chooses the indices to probe from the real object's own `solutions` (input generation); whether an index is valid, which
reply it must get and whether the reported counts are right is decided in TLA+ with exact limb arithmetic over the recorded DAG."""
from . import pool, stage, tlcrun
from .common import log, scratch, Timer

B = 1000
EXPR = 'E: E "+" E | "n";'
PAIRS = 'L: I*; I: "i" | "i" "i";'
BIN = 'S: S S | "a";'
MIX = 'S: T "x" T; T: T T | "a" | "a" "a";'
CASES = {
    "quick": [(EXPR, "+".join("n" * 36)), (PAIRS, "i" * 95), (BIN, "a" * 24)],
    "thorough": [(EXPR, "+".join("n" * k)) for k in (20, 30, 36, 37, 38, 40, 45)] + [(PAIRS, "i" * k) for k in (60, 91, 92, 95, 130)] +
                [(BIN, "a" * k) for k in (22, 24, 36, 38, 42)] + [(MIX, "a" * 14 + "x" + "a" * 15), (MIX, "a" * 20 + "x" + "a" * 20)],
}


def limbs(x):
    out = []
    while x > 0:
        out.append(x % B)
        x //= B
    return out


def btree(root):
    """a tree as a FLAT preorder list of records (nested JSON deeper than 255 levels cannot be read by the TLA+ Json module)"""
    out, stack = [], [root]
    while stack:
        n = stack.pop()
        if n.is_term():
            out.append({"k": "T", "t": n.symbol.name, "p": -1, "s": n.start_position, "e": n.end_position, "n": 0})
        else:
            kids = list(n)
            out.append({"k": "N", "t": "", "p": n.production.prod_id, "s": n.start_position, "e": n.end_position, "n": len(kids)})
            stack.extend(reversed(kids))
    return out


def export_kids_first(forest):
    """the packed DAG, every node after its kids (iterative post-order); the order is re-checked in TLA+ (BigForest!Topo)"""
    ids, nodes = {}, []
    stack = [(forest.result, False)]
    while stack:
        p, done = stack.pop()
        if id(p) in ids:
            continue
        if not done:
            stack.append((p, True))
            for a in p.possibilities:
                if not a.is_term():
                    for c in a.children:
                        if id(c) not in ids:
                            stack.append((c, False))
            continue
        alts = []
        for a in p.possibilities:
            if a.is_term():
                alts.append({"k": "T", "t": a.symbol.name, "s": a.start_position, "e": a.end_position, "n": len(a.value)})
            else:
                alts.append({"k": "N", "p": a.production.prod_id, "s": a.start_position, "e": a.end_position, "c": [ids[id(c)] for c in a.children]})
        nodes.append({"s": p.start_position, "e": p.end_position, "alts": alts})
        ids[id(p)] = len(nodes)
    return {"root": ids[id(forest.result)], "nodes": nodes}


def worker(job):
    from . import real

    with real.quiet():
        parser = real.GLRParser(real.Grammar.from_string(job["gtext"]))
        forest = parser.parse(job["input"])
    dag = export_kids_first(forest)
    with real.quiet():
        forest = parser.parse(job["input"])      # a fresh object for the calls
    n = forest.solutions
    probes = sorted({0, 1, 2, n // 3, n // 2, n - 2, n - 1, n, n + 1, 2 * n + 3, 2**31 - 1, 2**31, 2**32, 2**63 - 2, 2**63 - 1, 2**63, 2**64, 10**30} - {-1, -2})
    calls = [("solutions", None), ("len", None), ("ambiguities", None), ("first", None), ("iter3", None)]
    for i in probes:
        calls += [("lazy", i), ("nonlazy", i), ("getitem", i)]
    calls += [("lazy", n - 1), ("nonlazy", n // 2), ("lazy", 0), ("len", None), ("solutions", None), ("lazy", n)]   # repeated access, after everything else
    trace = []
    for op, i in calls:
        ev = {"op": op, "idx": limbs(i) if i is not None else [], "r": {"kind": "none", "v": [], "tree": [], "trees": []}}
        try:
            with real.guard(20):
                if op == "solutions":
                    ev["r"] = dict(ev["r"], kind="int", v=limbs(forest.solutions))
                elif op == "len":
                    ev["r"] = dict(ev["r"], kind="int", v=limbs(len(forest)))
                elif op == "ambiguities":
                    ev["r"] = dict(ev["r"], kind="int", v=limbs(forest.ambiguities))
                elif op == "first":
                    ev["r"] = dict(ev["r"], kind="tree", tree=btree(forest.get_first_tree()))
                elif op == "iter3":
                    ts = []
                    for t in forest:
                        ts.append(btree(t))
                        if len(ts) == 3:
                            break
                    ev["r"] = dict(ev["r"], kind="trees", trees=ts)
                elif op == "lazy":
                    ev["r"] = dict(ev["r"], kind="tree", tree=btree(forest.get_tree(i)))
                elif op == "nonlazy":
                    ev["r"] = dict(ev["r"], kind="tree", tree=btree(forest.get_nonlazy_tree(i)))
                elif op == "getitem":
                    ev["r"] = dict(ev["r"], kind="tree", tree=btree(forest[i]))
        except IndexError:
            ev["r"] = dict(ev["r"], kind="IndexError")
        except Exception as e:  # noqa: BLE001
            ev["r"] = dict(ev["r"], kind="exc:" + type(e).__name__)
        trace.append(ev)
    return [{"name": "%s @ %r" % (job["gtext"], job["input"] if len(job["input"]) < 24 else job["input"][:12] + "...(%d chars)" % len(job["input"])),
             "origin": "det", "nodes": dag["nodes"], "root": dag["root"], "trace": trace, "count": str(n),
             "calls": [[op, str(i) if i is not None else ""] for op, i in calls]}]


def build(tier, seed):
    t = Timer()
    jobs = [{"gtext": g, "input": w} for g, w in CASES[tier]]
    cases = pool.flatten(pool.run_jobs("stage_big", "worker", jobs, chunksize=1))
    log("big forests: %d forests, %d calls recorded in %.1fs" % (len(cases), sum(len(c["trace"]) for c in cases), t.s()))
    # one TLC process per forest (each count is one long evaluation)
    paths = []
    for i, c in enumerate(cases):
        paths += tlcrun.write_shards([c], scratch() + "/big%d" % i)
    rs = tlcrun.run_shards("BigForestCheck", "BigForestCheck.cfg", paths, procs=8, workers=1)
    out = []
    for c, r in zip(cases, rs):
        if len(r.verdicts) != 1:
            raise tlcrun.MachineryFailure("BigForestCheck: no verdict for %s" % c["name"])
        v = r.verdicts[0]
        bad = sorted([list(x) for x in v[2]])
        harness = [b for b in bad if str(b[1]).startswith("harness:")]
        if harness:
            raise tlcrun.MachineryFailure("BigForestCheck: %s on %s" % (harness[0], c["name"]))
        cnt = sum(d * B**k for k, d in enumerate(v[3]))
        out.append({"name": c["name"], "origin": c["origin"], "bad": bad, "count_tla": str(cnt), "count_real": c["count"], "nodes": v[4], "calls": c["calls"],
                    "replies": [e["r"]["kind"] for e in c["trace"]]})
    stats = {"states": sum(r.distinct for r in rs), "generated": sum(r.generated for r in rs)}
    log("big forests judged in %.1fs" % t.s())
    return {"cases": out, "stats": stats}


def get(tier, seed):
    return stage.cached("big-" + tier, {"tier": tier, "cases": CASES[tier]}, lambda: build(tier, seed))
