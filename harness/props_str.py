"""C19 decided on the string-terminal stage (StrTerm.tla / StrCheck.tla)."""
from . import stage_str
from .checklib import Outcome
from .common import MachineryFailure, seed, tier


def c19(replay_case=None):
    out = Outcome("C19")
    if replay_case is not None:
        raise MachineryFailure("C19 replay: re-run harness/stage_str.worker on the recorded text / KEYWORD / ignore_case")
    r = stage_str.get(tier(), seed())
    st = r["stats"]
    out.cov["states"], out.cov["transitions"] = st["states"], st["generated"]
    for c in r["cases"]:
        out.count()
        out.cov["traces_validated_against_impl"] += 1
        if c["iskw"] or any(f != "" for f in c["facts"]) or c["ic"]:
            out.nontrivial(c["name"])
            out.sample({"case": c["name"], "keyword": c["iskw"], "probe_inputs": c["ninputs"], "facts": c["facts"]})
        for cl in c["clauses"]:
            out.fail(cl, c["name"], {"kind": "string-terminal-case", "name": c["name"], "errs": c["errs"], "tlc": {"clauses": c["clauses"], "facts": c["facts"]}},
                     origin=c["origin"], facts=set(c["facts"]))
    out.assumptions = ["whether a text is fully matched by the KEYWORD regex is taken from Python re.fullmatch (regular expression semantics are not modelled)",
                       "ASCII texts and inputs; word character = [A-Za-z0-9_]",
                       "matching is observed at the recognizer of the terminal (public attribute) at every position of every probe input, plus one parsed sentence per form"]
    return out.finish(extra_cov={
        "rule": "cases = texts over letters, digits, punctuation (. | + * ( ) [ ] \\ quotes # / { ? $ ^), blank, newline and tab (all of length 1, sampled of length 2-4, plus a word list with "
                "rule names, reserved names, escapes) x {no KEYWORD, KEYWORD /\\w+/, a KEYWORD matching non-word strings} x ignore_case for alphabetic texts; inline and declared form; "
                "~20 probe inputs each (text embedded between word characters, blanks, punctuation; case variants; prefixes); non-trivial = keyword, ignore_case, or a text in a finding class"})
