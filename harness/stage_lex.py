"""C07: terminal configurations realised as real grammars, scanned by the real LR/GLR parsers, judged by LexCheck.tla;
plus the exhaustive design-level run LexerMC (Impl = Doc)."""
import itertools
import random

from . import pool, stage, tlcrun
from .common import log, scratch, Timer

INPUT = "aaa aaa"
NAMES = ["tb", "ta", "Tc", "t_a", "tab"]
PARAMS = {"quick": dict(nexh=2, nrand=900), "thorough": dict(nexh=3, nrand=12000)}


# the "dash" variant: texts with characters a regex must escape, in front of a character no keyword contains; with KEYWORD /\w+(-\w+)*/
# "a", "a-a", "a-a-a" are keywords, "a-", "a-a-", "a-a-a=" are plain strings (finding D46: the scan order counted a keyword with the length
# of its ESCAPED regex, so the keyword "a-a-a" was tried, and finished the scan, before the longer string "a-a-a=")
INPUT_DASH = "a-a-a= a"
KEYWORD_DASH = "\\w+(-\\w+)*"


def _term_text(kind, matchlen, slen, idx, dash=False):
    """(grammar body, recognizer-length or None) realising the intent on INPUT at position 0"""
    other = "bcdef"[idx]
    if kind == "str":
        text = ((INPUT_DASH[:matchlen] if dash else "a" * matchlen)) if matchlen else (other * slen)
        return '"%s"' % text, None, len(text)
    if kind == "re":
        return (("/[a=-]{%d}/" if dash else "/a{%d}/") % matchlen) if matchlen else "/%s+/" % other, None, 0
    return "", matchlen, 0  # custom


def config_text(cfg, dash=False):
    """cfg: list of dicts {kind, mlen, slen, prior, prefer, mark}; returns (grammar text, recognizer lengths, intended slen per terminal)"""
    lines, recs, slens = [], {}, {}
    names = NAMES[: len(cfg)]
    for i, (name, c) in enumerate(zip(names, cfg)):
        body, rl, sl = _term_text(c["kind"], c["mlen"], c["slen"], i, dash)
        meta = [str(c["prior"])] if c["prior"] != 10 else []
        if c["prefer"]:
            meta.append("prefer")
        if c["mark"] != "none":
            meta.append(c["mark"])
        lines.append("%s: %s%s;" % (name, body, (" {%s}" % ", ".join(meta)) if meta else ""))
        if rl is not None:
            recs[name] = rl
        slens[name] = sl
    text = "S: %s;\nterminals\n%s\n" % (" | ".join(names), "\n".join(lines))
    return text, recs, slens


def with_stop_state(text):
    """the same terminals scanned in a state that ALSO expects STOP (S: '#' X | '#'): with consume_input off the STOP token is offered
    next to the real ones, which is where a scanner shortcut could interfere"""
    head, rest = text.split(";\n", 1)
    alts = head[len("S: "):]
    return 'S: HASH_ X_ | HASH_;\nX_: %s;\n' % alts + rest + 'HASH_: "#";\n'


def _configs(tier, seed):
    p = PARAMS[tier]
    out = []
    kinds = ["str", "re", "custom"]
    # exhaustive small part: n terminals, priorities {5,10,15} (2 values for n=3), lengths 0..2, prefer, no marks
    for n in range(1, p["nexh"] + 1):
        priors = [10, 15] if n >= 2 else [5, 10, 15]
        per = [dict(kind=k, mlen=m, slen=max(m, 1), prior=pr, prefer=pf, mark="none")
               for k in kinds for m in (0, 1, 2) for pr in priors for pf in ((False, True) if n < 3 else (False,))]
        for combo in itertools.product(per, repeat=n):
            out.append({"cfg": [dict(c) for c in combo], "kw": False, "ic": False, "origin": "det"})
    rng = random.Random(77 + 1000 * 0)
    rng2 = random.Random(5000011 * (seed + 1))
    for k in range(p["nrand"]):
        r = rng if k % 2 == 0 else rng2
        n = r.randint(2, 5)
        cfg = []
        for _ in range(n):
            kind = r.choice(["str", "str", "re", "re", "custom"])
            m = r.choice([0, 1, 2, 3, 3])
            cfg.append(dict(kind=kind, mlen=m, slen=r.randint(1, 3) if not m else m, prior=r.choice([5, 10, 10, 10, 15, 20]),
                            prefer=r.random() < 0.3, mark=r.choice(["none"] * 5 + ["finish", "nofinish"])))
        if k % 8 == 6:
            # priorities of any size ("arbitrary priorities"): beyond 7 digits, beyond 32 bits (finding D35: the order key was a formatted string)
            for c in cfg:
                c["prior"] = r.choice([3, 10, 10**7, 10**8, 2**31 + 5, 10**12])
        out.append({"cfg": cfg, "kw": r.random() < 0.3, "ic": r.random() < 0.15, "origin": "det" if k % 2 == 0 else "rand"})
    # every configuration is also scanned in a state that expects STOP as well (every other exhaustive one, all random ones)
    out += [dict(c, stop=True) for i, c in enumerate(out) if i % 2 == 0 or len(c["cfg"]) > 2]
    # the dash variant (keywords whose regex is longer than their text next to plain strings): all pairs of string terminals over the six
    # prefixes of INPUT_DASH with a third terminal of any kind, and a seeded sample of larger sets
    per = [dict(kind="str", mlen=m, slen=m, prior=10, prefer=False, mark="none") for m in range(1, 7)]
    third = [None, dict(kind="re", mlen=2, slen=0, prior=10, prefer=False, mark="none"), dict(kind="re", mlen=6, slen=0, prior=10, prefer=False, mark="none"),
             dict(kind="custom", mlen=4, slen=0, prior=10, prefer=False, mark="none"), dict(kind="str", mlen=3, slen=3, prior=15, prefer=False, mark="none")]
    for a, b in itertools.combinations(per, 2):
        for c in third:
            if c is not None and c["kind"] == "str" and c["mlen"] in (a["mlen"], b["mlen"]):
                continue
            out.append({"cfg": [dict(x) for x in (a, b, c) if x is not None], "kw": True, "ic": False, "origin": "det", "dash": True})
    rng3 = random.Random(6000011 * (seed + 1))
    for k in range(p["nrand"] // 10):
        ms = rng3.sample(range(1, 7), rng3.randint(2, 4))
        cfg = [dict(kind=rng3.choice(["str", "str", "str", "re", "custom"]), mlen=m, slen=m, prior=rng3.choice([10, 10, 10, 5, 15]),
                    prefer=rng3.random() < 0.25, mark=rng3.choice(["none"] * 5 + ["finish", "nofinish"])) for m in ms]
        out.append({"cfg": cfg, "kw": rng3.random() < 0.8, "ic": False, "origin": "rand", "dash": True, "stop": rng3.random() < 0.3})
    return out


def worker(job):
    from . import real

    dash = bool(job.get("dash"))
    text, recs, slens = config_text(job["cfg"], dash)
    stop = bool(job.get("stop"))
    if stop:
        text = with_stop_state(text)
    if job["kw"]:
        text += "KEYWORD: /%s/;\n" % (KEYWORD_DASH if dash else "\\w+")
    INPUT = INPUT_DASH if dash else globals()["INPUT"]
    if job["ic"]:
        text = text.replace('"a', '"A')
    recognizers = {n: (lambda ln: (lambda inp, pos: inp[pos:pos + ln] if ln else None))(ln) for n, ln in recs.items()}
    out = []
    try:
        with real.guard(5), real.quiet():
            g = real.Grammar.from_string(text, recognizers=recognizers, ignore_case=job["ic"])
    except Exception as e:  # noqa: BLE001  (e.g. two string terminals with the same text: not a configuration)
        return [{"skip": "%s: %s" % (type(e).__name__, str(e)[:80])}]
    pre = None
    for kind, ld in (("lr", True), ("lr", False), ("glr", False), ("glr", True), ("glr-precomputed-table", False)):
        try:
            with real.guard(5), real.quiet():
                if kind == "glr-precomputed-table":
                    # the GLR default (lexical disambiguation off) must also hold when the table is handed in precomputed
                    parser = real.GLRParser(g, table=pre.table, consume_input=False)
                    kind = "glr"
                else:
                    cls = real.GLRParser if kind == "glr" else real.Parser
                    kw = {"build_tree": True} if kind == "lr" else {}
                    parser = cls(g, consume_input=False, lexical_disambiguation=ld, **kw)
                    if kind == "glr" and not ld:
                        pre = parser
        except Exception as e:  # noqa: BLE001
            out.append({"skip": "build %s: %s" % (type(e).__name__, str(e)[:80])})
            continue
        INP = ("# " + INPUT) if stop else INPUT
        POS = 2 if stop else 0
        st = parser.table.states[0] if not stop else [x for x in parser.table.states if x.symbol.name == "HASH_"][0]
        keys = [k for k in st.actions if k.name not in ("EMPTY",)]
        names_sorted = sorted(k.name for k in keys)
        terms = []
        # TLC integers are 32-bit and Lexer!Key multiplies: priorities beyond 10^5 are handed over as their RANKS (the documented choice
        # depends on their order only)
        allp = sorted({k.prior for k in keys})
        prank = (lambda x: allp.index(x) + 1) if allp[-1] > 10**5 else (lambda x: x)
        for k in keys:
            rec = k.recognizer
            m = None
            try:
                m = rec(INP, POS)
            except TypeError:
                m = None
            tkind = "kw" if k.keyword else "str" if type(rec).__name__ == "StringRecognizer" else "re" if type(rec).__name__ == "RegExRecognizer" else "custom"
            terms.append({"name": k.name, "kind": tkind, "prior": prank(k.prior), "prefer": bool(k.prefer),
                          "mark": "none" if k.finish is None else "finish" if k.finish else "nofinish",
                          "slen": slens.get(k.name, 0) if tkind in ("str", "kw") else 0, "nrank": names_sorted.index(k.name) + 1,
                          "mlen": len(m) if m else 0})
        flags = [bool(st.finish_flags[i]) for i, k in enumerate(st.actions) if k.name not in ("EMPTY",)]
        obs = {"kind": "exc", "toks": [], "vlen": 0}
        try:
            with real.guard(5), real.quiet():
                r = parser.parse(INP)

            def leaves(n):
                return [n] if n.is_term() else [x for c in n for x in leaves(c)]

            def scanned(tree):
                ls = leaves(tree)
                if not stop:
                    return ls[0]
                return ls[1] if len(ls) > 1 else None      # None: the STOP token was taken (S: '#')
            if kind == "lr":
                leaf = scanned(r)
                obs = {"kind": "token", "toks": [leaf.symbol.name], "vlen": len(leaf.value)} if leaf is not None else {"kind": "stop", "toks": ["STOP"], "vlen": 0}
            else:
                toks = set()
                for t in r:
                    leaf = scanned(t)
                    toks.add(leaf.symbol.name if leaf is not None else "STOP")
                obs = {"kind": "forks", "toks": sorted(toks), "vlen": 0}
        except real.parglare.exceptions.DisambiguationError as e:
            obs = {"kind": "disamb", "toks": sorted(t.symbol.name for t in e.tokens), "vlen": 0}
        except real.parglare.SyntaxError:
            obs = {"kind": "syntax", "toks": [], "vlen": 0}
        except Exception as e:  # noqa: BLE001
            obs = {"kind": "exc:" + type(e).__name__, "toks": [], "vlen": 0}
        out.append({"name": "%s [%s,ld=%d%s%s] @ %r" % (text.replace("\n", " ").strip(), kind, ld, ",ignore_case" if job["ic"] else "",
                                                           (",table=precomputed" if parser is not pre and kind == "glr" and not ld else "") + (",state-expecting-STOP" if stop else ""), INP),
                    "gtext": text, "recs": recs, "ic": job["ic"], "parser": kind, "ld": ld, "origin": job["origin"],
                    "terms": terms, "real_order": [k.name for k in keys], "real_flags": flags, "obs": obs, "stop": stop})
    return out


def design_level():
    r = tlcrun.run_tlc("LexerMC", "LexerMC.cfg", workers=16, heap="6g", allow_violation=True, heavy=True)
    neg = tlcrun.run_tlc("LexerMC", "LexerMCneg.cfg", workers=2, allow_violation=True)
    return {"states": r.distinct, "generated": r.generated, "violated": r.violated, "neg_violated": neg.violated}


def judge(cases, tag="lex"):
    paths = tlcrun.write_shards(cases, scratch() + "/" + tag, max_bytes=2_500_000, min_shards=8)
    rs = tlcrun.run_shards("LexCheck", "LexCheck.cfg", paths, procs=4, workers=4)
    v = {x[1]: x for r in rs for x in r.verdicts}
    if len(v) != len(cases):
        raise tlcrun.MachineryFailure("LexCheck: %d cases, %d verdicts" % (len(cases), len(v)))
    out = []
    for i, c in enumerate(cases):
        out.append({k: c[k] for k in ("name", "gtext", "recs", "ic", "parser", "ld", "origin", "obs")} | {"clauses": sorted(v[i][2]), "flags": v[i][3]})
    return out, {"states": sum(r.distinct for r in rs), "generated": sum(r.generated for r in rs)}


def build(tier, seed):
    t = Timer()
    cfgs = _configs(tier, seed)
    res = pool.flatten(pool.run_jobs("stage_lex", "worker", cfgs, chunksize=16))
    cases = [c for c in res if "skip" not in c]
    log("lexer corpus: %d configurations, %d cases (%d skipped) in %.1fs" % (len(cfgs), len(cases), len(res) - len(cases), t.s()))
    out, stats = judge(cases)
    stats["design"] = design_level()
    stats["skipped"] = len(res) - len(cases)
    log("lexer corpus judged in %.1fs" % t.s())
    return {"cases": out, "stats": stats}


def get(tier, seed):
    return stage.cached("lex-" + tier, {"tier": tier, "seed": seed, "params": PARAMS[tier]}, lambda: build(tier, seed))
