"""C06 (and the precedence-filter clause of C18): operator tables realised as real expression grammars, judged by Prec.tla."""
import random

from . import pool, stage, tlcrun
from .common import log, scratch, Timer

OPS = ["+", "-", "*", "/", "^", "%"]
# priority numbers are drawn from here (0, the default 10, values above CPython's small-int cache, ...)
PRIO_POOL = [0, 1, 2, 3, 5, 9, 10, 11, 15, 20, 99, 100, 255, 256, 257, 300, 1000, 65536]
PARAMS = {"quick": dict(nexh=3, nrand=110, nexpr=20, maxtok=9), "thorough": dict(nexh=3, nrand=4000, nexpr=60, maxtok=11)}


def tag(t):
    """nested-list result of the parser (no actions) -> tagged tuples for TLA+"""
    if isinstance(t, str):
        return ["L"] if t == "n" else ["?", t]
    if isinstance(t, list) and len(t) == 3 and t[0] == "(":
        return ["P", tag(t[1])]
    if isinstance(t, list) and len(t) == 3:
        return ["B", t[1], tag(t[0]), tag(t[2])]
    return ["?", str(t)[:20]]


def gen_expr(rng, ops, depth):
    if depth == 0 or rng.random() < 0.3:
        return ["n"]
    if rng.random() < 0.15:
        return ["("] + gen_expr(rng, ops, depth - 1) + [")"]
    return gen_expr(rng, ops, depth - 1) + [rng.choice(ops)] + gen_expr(rng, ops, depth - 1)


def rule_meta(table, order):
    """the (assoc, prio) written at RULE level in the rule-level variant: those of the first operator alternative"""
    first = next(a for a in order if a in table)
    return table[first][1], table[first][0]


def table_text(table, order, dynamic=False, static=True, rulelevel=False):
    """table: {op: (prio, assoc)}; order: list of alternatives.  rulelevel: the marks of the first operator are written once at the rule
    (`E {left, 5}: ...`) and inherited by every alternative that does not override them (docs/grammar_language.md, rule meta-data)."""
    alts = []
    rm = rule_meta(table, order) if rulelevel and static else None
    for a in order:
        if a in table:
            pr, assoc = table[a]
            if rm is None:
                marks = ["%s" % assoc, "%d" % pr]
            elif (assoc, pr) == rm:
                marks = []
            elif assoc == rm[0]:
                marks = ["%d" % pr]
            else:
                marks = ["%s" % assoc, "%d" % pr]
            meta = (marks if static else []) + (["dynamic"] if dynamic else [])
            alts.append('E "%s" E%s' % (a, (" {%s}" % ", ".join(meta)) if meta else ""))
        elif a == "paren":
            alts.append('"(" E ")"')
        else:
            alts.append('"n"')
    return "E%s: " % (" {%s, %d}" % rm if rm else "") + " | ".join(alts) + ";\n"


def strat_text(table, marked):
    """the stratified (already LALR(1)) grammar of the same table, optionally with the same marks added"""
    levels = sorted({p for p, _ in table.values()})
    names = ["L%d" % i for i in range(len(levels))] + ["F"]
    s = ""
    for i, lv in enumerate(levels):
        ops = [o for o, (p, _) in table.items() if p == lv]
        assoc = table[ops[0]][1]
        me, nxt = names[i], names[i + 1]
        alts = []
        for o in ops:
            meta = " {%s, %d}" % (assoc, lv) if marked else ""
            alts.append(('%s "%s" %s%s' % (me, o, nxt, meta)) if assoc == "left" else ('%s "%s" %s%s' % (nxt, o, me, meta)))
        alts.append(nxt)
        s += "%s: %s;\n" % (me, " | ".join(alts))
    s += 'F: "(" L0 ")" | "n";\n'
    return s


def _tables(tier, seed):
    p = PARAMS[tier]
    out = []
    rng = random.Random(606)
    # all shapes with <= nexh operators: level assignment x assoc per level (priority numbers and alternative order sampled)
    import itertools

    for k in range(1, p["nexh"] + 1):
        ops = OPS[:k]
        for lv in itertools.product(range(k), repeat=k):
            if sorted(set(lv)) != list(range(len(set(lv)))):
                continue
            for assoc in itertools.product(["left", "right"], repeat=len(set(lv))):
                nums = sorted(rng.sample(PRIO_POOL, len(set(lv))))
                table = {o: (nums[l], assoc[l]) for o, l in zip(ops, lv)}
                order = list(ops) + ["paren", "n"]
                rng.shuffle(order)
                out.append({"table": table, "order": order, "origin": "det"})
    rng2 = random.Random(3000017 * (seed + 1))
    for i in range(p["nrand"]):
        r = rng if i % 2 == 0 else rng2
        k = r.randint(2, 6)
        ops = r.sample(OPS, k)
        nl = r.randint(1, k)
        nums = sorted(r.sample(PRIO_POOL, nl))
        assoc = [r.choice(["left", "right"]) for _ in range(nl)]
        lv = [r.randrange(nl) for _ in ops]
        table = {o: (nums[l], assoc[l]) for o, l in zip(ops, lv)}
        order = list(ops) + ["paren", "n"]
        r.shuffle(order)
        out.append({"table": table, "order": order, "origin": "det" if i % 2 == 0 else "rand"})
    for i, j in enumerate(out):
        j["nexpr"], j["maxtok"] = p["nexpr"], p["maxtok"]
        j["rulelevel"] = i % 3 == 1
    return out


def _parse(real, parser, w):
    try:
        with real.guard(10), real.quiet():
            return {"kind": "tree", "tree": tag(parser.parse(w))}
    except real.Timeout:
        return {"kind": "timeout", "tree": ["?", ""]}
    except real.parglare.SyntaxError:
        return {"kind": "syntax", "tree": ["?", ""]}
    except Exception as e:  # noqa: BLE001
        return {"kind": "exc:" + type(e).__name__, "tree": ["?", ""]}


def _glr(real, parser, w):
    try:
        with real.guard(10), real.quiet():
            f = parser.parse(w)
            n = real.flen(f)
            return [tag(parser.call_actions(f[i])) for i in range(min(n, 6))]
    except Exception:  # noqa: BLE001
        return []


def make_prec_filter(real, table):
    """A dynamic filter that encodes the operator table (the environment of C18's last clause)."""
    SHIFT, REDUCE = real.SHIFT, real.REDUCE

    def prio(sym):
        return table.get(sym.name)

    def flt(context, from_state, to_state, action, production, subresults):
        if action is None:
            return None
        if action is SHIFT:
            op = context.token.symbol
            if prio(op) is None:
                return True
            reds = [a for a in from_state.actions.get(op, []) if a.action is REDUCE and len(a.prod.rhs) == 3 and prio(a.prod.rhs[1]) is not None]
            if not reds:
                return True
            rp, ra = prio(reds[0].prod.rhs[1])
            sp, _sa = prio(op)
            return sp > rp or (sp == rp and ra == "right")
        op = context.token_ahead.symbol
        if len(production.rhs) != 3 or prio(production.rhs[1]) is None or prio(op) is None:
            return True
        rp, ra = prio(production.rhs[1])
        sp, _sa = prio(op)
        return rp > sp or (rp == sp and ra == "left")

    return flt


def worker(job):
    from . import real

    table, order = job["table"], job["order"]
    text = table_text(table, order, rulelevel=job.get("rulelevel", False))
    name = text.strip()
    case = {"name": name, "gtext": text, "origin": job["origin"], "ops": {o: {"prio": p, "assoc": a} for o, (p, a) in table.items()},
            "built": False, "strat": True, "filter": True, "exprs": [], "build_err": ""}
    lr, err = real.build("lr", text, prefer_shifts=False, prefer_shifts_over_empty=False)
    glr, _ = real.build("glr", text)
    if lr is None or glr is None:
        case["build_err"] = err or "glr"
        return [case]
    case["built"] = True
    sp, e1 = real.build("lr", strat_text(table, False), prefer_shifts=False, prefer_shifts_over_empty=False)
    sm, e2 = real.build("lr", strat_text(table, True), prefer_shifts=False, prefer_shifts_over_empty=False)
    case["strat"] = sp is not None and sm is not None
    if sp is None:
        case["strat_err"] = e1
    # the same table with NO static marks but every operator production and terminal dynamic + a precedence-encoding filter (C18)
    dyn_text = table_text(table, order, dynamic=True, static=False) + "terminals\n" + "".join('OP%d: "%s" {dynamic};\n' % (i, o) for i, o in enumerate(table))
    for i, o in enumerate(table):
        dyn_text = dyn_text.replace('"%s"' % o, "OP%d" % i, 1) if False else dyn_text
    # simpler: mark inline string terminals dynamic through a terminals section that redeclares them under their own text as name
    dyn_text = table_text(table, order, dynamic=True, static=False)
    flt = make_prec_filter(real, {o: v for o, v in table.items()})
    flr, fe = real.build("lr", dyn_text, prefer_shifts=False, prefer_shifts_over_empty=False, dynamic_filter=flt)
    fglr, _ = real.build("glr", dyn_text, dynamic_filter=flt)
    case["filter"] = False  # filled in by stage_filter (C18); LR needs dynamic terminals, see there
    rng = random.Random(hash(name) & 0xFFFFFF)
    ops = list(table)
    seen = set()
    exprs = [["n"], ["n", ops[0], "n"], ["(", "n", ")"], ["n", ops[0]], [ops[0], "n"], ["(", "n"], ["n", ")"], ["n", "n"]]
    for a in ops:
        for b in ops:
            exprs.append(["n", a, "n", b, "n"])
    tries = 0
    while len(exprs) < job["nexpr"] + 8 and tries < 400:
        tries += 1
        exprs.append(gen_expr(rng, ops, 3))
    for toks in exprs:
        if len(toks) > job["maxtok"] or tuple(toks) in seen:
            continue
        seen.add(tuple(toks))
        w = " ".join(toks)
        e = {"toks": toks, "lr": _parse(real, lr, w), "glr": _glr(real, glr, w),
             "strat_plain": _parse(real, sp, w) if case["strat"] else {"kind": "none", "tree": ["?", ""]},
             "strat_marked": _parse(real, sm, w) if case["strat"] else {"kind": "none", "tree": ["?", ""]},
             "flr": {"kind": "none", "tree": ["?", ""]}, "fglr": []}
        case["exprs"].append(e)
    return [case]


def judge(cases, tag_="prec"):
    paths = tlcrun.write_shards(cases, scratch() + "/" + tag_, max_bytes=2_000_000, min_shards=8)
    rs = tlcrun.run_shards("Prec", "Prec.cfg", paths, procs=4, workers=4)
    per = {}
    for r in rs:
        for v in r.verdicts:
            per.setdefault(v[1], []).append((v[2], sorted(v[3]), v[4]))
    casev = {v[1]: v for r in rs for v in tlcrun.extract_tuples(r.out, "CASE")}
    out = []
    for i, c in enumerate(cases):
        ex = []
        for eid, cl, ntrees in per.get(i, []):
            e = c["exprs"][eid - 1]
            ex.append({"toks": e["toks"], "clauses": cl, "ntrees": ntrees, "lr": e["lr"]["kind"], "nglr": len(e["glr"])})
        if c["built"] and len(ex) != len(c["exprs"]):
            raise tlcrun.MachineryFailure("Prec: case %d has %d expressions but %d verdicts" % (i, len(c["exprs"]), len(ex)))
        out.append({"name": c["name"], "gtext": c["gtext"], "origin": c["origin"], "ops": c["ops"], "built": c["built"], "build_err": c["build_err"],
                    "strat": c["strat"], "case_clauses": sorted(casev[i][2]) if i in casev else [], "exprs": ex})
    return out, {"states": sum(r.distinct for r in rs), "generated": sum(r.generated for r in rs)}


def build(tier, seed):
    t = Timer()
    jobs = _tables(tier, seed)
    cases = pool.flatten(pool.run_jobs("stage_prec", "worker", jobs, chunksize=2))
    log("prec corpus: %d operator tables, %d expressions in %.1fs" % (len(cases), sum(len(c["exprs"]) for c in cases), t.s()))
    out, stats = judge(cases)
    log("prec corpus judged in %.1fs" % t.s())
    return {"cases": out, "stats": stats}


def get(tier, seed):
    return stage.cached("prec-" + tier, {"tier": tier, "seed": seed, "params": PARAMS[tier]}, lambda: build(tier, seed))
