"""The recorded LR corpus (Parser build_tree=True next to GLRParser on the same input), judged by
LRCheck.tla.  Shared by C04, C08, C10 and the LR half of C17."""
import itertools
import random

from . import gen, pool, stage, tlcrun
from .common import log, scratch, Timer

PARAMS = {
    "quick": dict(nfam=110, n=4, nrand=30, rand_len=6, nidiom=120, nrr=60, neps=80, nover=50),
    "thorough": dict(nfam=1200, n=5, nrand=600, rand_len=8, nidiom=None, nrr=600, neps=None, nover=800),
}
COMBOS = [("LALR", False, False), ("LALR", True, True), ("LALR", False, True), ("SLR", False, False)]
# the other half of (tables x prefer_shifts x prefer_shifts_over_empty): every third job runs under all eight combinations
COMBOS_REST = [("LALR", True, False), ("SLR", True, True), ("SLR", False, True), ("SLR", True, False)]

# grammars with empty productions at the beginning, middle and end of rules (C08), expression-like (C04)
SPECIAL = [
    {"prods": [("S", ("A", "a", "B", "b", "C")), ("A", ()), ("A", ("c",)), ("B", ()), ("C", ())],
     "terms": [("a", "str", "a"), ("b", "str", "b"), ("c", "str", "c")]},
    {"prods": [("S", ("A", "B")), ("A", ()), ("A", ("a", "A")), ("B", ()), ("B", ("b",))], "terms": [("a", "str", "a"), ("b", "str", "b")]},
    {"prods": [("S", ("S", "a", "A")), ("S", ("A",)), ("A", ("b",)), ("A", ("c", "S", "c"))],
     "terms": [("a", "str", "a"), ("b", "str", "b"), ("c", "str", "c")]},
    {"prods": [("S", ("A", "S", "b")), ("S", ("a",)), ("A", ())], "terms": [("a", "str", "a"), ("b", "str", "b")]},
    {"prods": [("S", ("a", "A", "b")), ("A", ()), ("A", ("A", "c"))], "terms": [("a", "str", "a"), ("b", "str", "b"), ("c", "str", "c")]},
]


# rules written bottom-up (an earlier-declared nonterminal inherits FOLLOW from later-declared ones through a chain of tail positions):
# the fixpoints of FIRST/FOLLOW need several passes here
SPECIAL += [
    {"prods": [("S", ("C", "c")), ("A", ()), ("B", ("a", "A")), ("C", ("b", "B"))], "terms": gen.PLAIN_TERMS},
    {"prods": [("S", ("A", "c")), ("C", ("b",)), ("B", ("C",)), ("A", ("B",))], "terms": gen.PLAIN_TERMS},
    {"prods": [("S", ("A", "a")), ("S", ("S", "A", "a")), ("C", ("c",)), ("C", ("b", "S", "b")), ("B", ("C",)), ("B", ("B", "c", "C")), ("A", ("B",))],
     "terms": gen.PLAIN_TERMS},
]


SPECIAL += gen.ACCEPT_VS_EMPTY


def _jobs(tier, seed):
    p = PARAMS[tier]
    fam = SPECIAL + gen.WITNESSES[:5] + gen.family(3, 3, limit=p["nfam"], rng_seed=101) + \
        gen.family(4, 2, nts=("S", "A", "B"), terms=gen.PLAIN_TERMS, limit=p["nfam"] // 2, rng_seed=102)
    jobs = []
    rng = random.Random(31337)
    for i, g in enumerate(fam):
        alpha = [t[2] for t in g["terms"]]
        words = list(gen.token_strings(alpha, p["n"]))
        if len(words) > 130:
            words = words[:40] + rng.sample(words[40:], 90)
        inputs = ["".join(w) for w in words]
        pick = rng.sample(words[1:], min(5, len(words) - 1))
        inputs += [gen.render(w, rng.choice(gen.LAYOUTS[1:])) for w in pick]
        inputs += ["\n", " ".join(pick[0]) + " \n ?" if pick else "?", "\n\n" + "\n".join(pick[-1]) if pick else "\n"]
        jobs.append({"g": g, "inputs": inputs, "origin": "det", "consume": True})
        if i % 4 == 0 and not gen.cyclic(g["prods"], [t[0] for t in g["terms"]]):
            jobs.append({"g": g, "inputs": inputs[: 40], "origin": "det", "consume": False})
    for i, g in enumerate(fam[: max(12, p["nfam"] // 6)]):
        alpha = [t[2] for t in g["terms"]]
        words = list(gen.token_strings(alpha, 3)) + [w for w in gen.directed_inputs(g, rng, n_all=2, maxlen=5, n_sent=6, n_mut=4)]
        jobs.append({"g": g, "inputs": sorted({"".join(w) for w in words}), "origin": "det", "consume": True, "list": True, "strlast": i % 2 == 1})
    # hand-written list / optional idioms in sequence (gen.idiom_family): all token strings <= 3, sentences up to 6 tokens and corruptions
    rng = random.Random(31339)
    for g in gen.idiom_family(limit=p["nidiom"], rng_seed=4712):
        words = gen.directed_inputs(g, rng, n_all=3 if len(g["terms"]) < 3 else 2, maxlen=6, n_sent=12, n_mut=6)
        inputs = sorted({gen.render(w, "spaces" if "," in w else rng.choice(["none", "none", "spaces"])) for w in words})
        jobs.append({"g": g, "inputs": inputs, "origin": "det", "consume": True})
    # whitespace layout written as a LAYOUT rule (the layout parser's table is built from the same Grammar object first)
    rng = random.Random(31340)
    for g in fam[2:: 6]:
        words = gen.directed_inputs(g, rng, n_all=2, maxlen=5, n_sent=8, n_mut=4)
        inputs = sorted({gen.render(w, rng.choice(gen.LAYOUTS)) for w in words})
        g2 = {"prods": g["prods"], "terms": g["terms"] + [("WS_", "re", "\\s+")]}
        jobs.append({"g": g2, "inputs": inputs, "origin": "det", "consume": True, "extra": "LAYOUT: LayoutItem_*;\nLayoutItem_: WS_;\n"})
    # lookahead propagation through chains of nullable nonterminals (gen.epschain_family)
    rng = random.Random(31342)
    for g in gen.epschain_family(limit=p["neps"], rng_seed=4772):
        words = gen.directed_inputs(g, rng, n_all=3 if len(g["terms"]) < 3 else 2, maxlen=5, n_sent=8, n_mut=3)
        jobs.append({"g": g, "inputs": sorted({"".join(w) for w in words}), "origin": "det", "consume": True})
    # lexically overlapping terminals with layout between the tokens: every GLR tree must still be lossless (layout_content of each leaf;
    # finding D13 / round-3 seeded change C14-f: the head cloned for a second lexical alternative forgot the skipped layout)
    rng = random.Random(31343)
    k = 0
    while k < p["nover"]:
        g = gen.random_grammar(rng, nts=("S", "A"), term_pool=gen.OVERLAP_TERMS, nterm=(2, 3), nprod=(2, 4))
        if g is None:
            continue
        k += 1
        words = ["".join(w) for n in range(1, 4) for w in itertools.product("ab", repeat=n)]
        inputs = set(words)
        for w in words:
            inputs.add(" " + "  ".join(w))
            inputs.add("\n".join(w) + " \n")
            # layout in front of CONTIGUOUS characters: tokens of different length start right after the same layout (finding D30)
            inputs.add(" " + w)
            inputs.add("  " + w[:1] + " " + w[1:] + " ")
        jobs.append({"g": g, "inputs": sorted(inputs), "origin": "det", "consume": True, "overlap": True})
    # one TERMINAL matching with different lengths from different starts up to the same end (/ab|b/): both shifts reach the same GSS head
    # (finding D30: the head's layout_content was that of the first token shifted to it)
    X, Y, Z = ("X", "re", "ab|b"), ("Y", "re", "a"), ("Z", "re", "abc|c")
    for prods, terms in (([("S", ("S", "I")), ("S", ("I",)), ("I", ("X",)), ("I", ("Y",))], [X, Y]),
                         ([("S", ("S", "I")), ("S", ("I",)), ("I", ("X",)), ("I", ("Y",)), ("I", ("Z",))], [X, Y, Z]),
                         ([("S", ("I", "I")), ("S", ("I",)), ("I", ("X",)), ("I", ("Y",))], [X, Y])):
        words = ["".join(w) for n in range(1, 5) for w in itertools.product("abc" if len(terms) == 3 else "ab", repeat=n)]
        inputs = set()
        for w in words[:60]:
            inputs |= {w, " " + w, "  " + w[:2] + " " + w[2:] + " ", "\n" + w + "\n"}
        jobs.append({"g": {"prods": prods, "terms": terms}, "inputs": sorted(inputs), "origin": "det", "consume": True, "overlap": True})
    # reduce/reduce families (gen.rr_family): GLR heads in different states over the same input; all token strings <= 3 (sampled) + sentences
    rng = random.Random(31341)
    for g in gen.rr_family(p["nrr"]):
        alpha = [t[2] for t in g["terms"]]
        words = list(gen.token_strings(alpha, 3))
        if len(words) > 70:
            words = words[: len(alpha) + 1] + rng.sample(words[len(alpha) + 1:], 70)
        words += gen.sentences(g, maxlen=4, limit=20)
        jobs.append({"g": g, "inputs": sorted({" ".join(w) for w in words}), "origin": "det", "consume": True})
    for i, j in enumerate(jobs):
        if i % 3 == 0 and not j.get("list"):
            j["allcombos"] = True
        if i % 9 == 4 and not j.get("list"):
            j["debug"] = True
    # witnesses of finding D47 under every option combination: SLR FOLLOW sets allow the reduction of an empty production on STOP in a state
    # whose goto on that nonterminal is the state itself; with the shift/EMPTY-reduction conflict resolved by a strategy the parser is built
    for prods in ([("S", ("A", "S", "A")), ("S", ("b", "b", "A")), ("A", ())],
                  [("S", ("A", "S")), ("S", ("b",)), ("A", ())],
                  [("S", ("A", "B", "S", "c")), ("S", ("b",)), ("A", ()), ("B", ())]):
        g = {"prods": prods, "terms": gen.PLAIN_TERMS}
        words = list(gen.token_strings([t[2] for t in g["terms"]], 3))
        jobs.append({"g": g, "inputs": ["".join(w) for w in words] + [" ", "\n", " b b ", "b\nb"], "origin": "det", "consume": True, "allcombos": True})
    # Grammar.from_string(..., ignore_case=True): the tokens are the text of the INPUT, in its own case (finding D38: a string
    # terminal's node carried the grammar's spelling, so the leaves no longer spelled the input)
    rng = random.Random(31344)
    icterms = [("kb", "str", "begin"), ("ke", "str", "End"), ("id", "re", "[a-z]")]
    for g in fam[3:: 9] + [{"prods": [("S", ("kb", "L", "ke")), ("L", ("L", "id")), ("L", ())], "terms": icterms},
                           {"prods": [("S", ("S", "id")), ("S", ("kb",)), ("S", ("ke",))], "terms": icterms}]:
        words = gen.directed_inputs(g, rng, n_all=2, maxlen=5, n_sent=8, n_mut=4)
        inputs = set()
        for w in words:
            t = gen.render(w, rng.choice(["none", "spaces"]) if g["terms"] is not icterms else "spaces")
            inputs |= {t, t.upper(), "".join(c.upper() if rng.random() < 0.5 else c.lower() for c in t)}
        # (the keyword grammars overlap lexically -- "End" is also three identifiers: like the other overlap jobs they are read by C08 only)
        jobs.append({"g": g, "inputs": sorted(inputs), "origin": "det", "consume": True, "icase": True, "overlap": g["terms"] is icterms})
    rng = random.Random(2000003 * (seed + 1))
    k = 0
    while k < p["nrand"]:
        g = gen.random_grammar(rng, nprod=(3, 7))
        if g is None:
            continue
        k += 1
        alpha = [t[2] for t in g["terms"]]
        inputs = set()
        for _ in range(30):
            w = [rng.choice(alpha) for _ in range(rng.randint(0, p["rand_len"]))]
            inputs.add(gen.render(w, rng.choice(["none", "none", "spaces", "mixed"])))
        jobs.append({"g": g, "inputs": sorted(inputs), "origin": "rand", "consume": rng.random() < 0.85})
    return jobs


NOTREE = {"k": "X"}
NOEXC = {"pos": -1, "line": -1, "col": -1, "exp": [], "str_ok": True, "eofmsg": False, "cls": ""}


def _exc(real, e, w):
    d = real.exc_json(e, w)
    return {"pos": d.get("pos", -1), "line": d.get("line", -1), "col": d.get("col", -1), "exp": d.get("exp", []),
            "str_ok": d.get("str_ok", True), "eofmsg": "end of file" in d.get("str", ""), "cls": d["cls"]}


def _run_lr(real, parser, w):
    try:
        with real.guard(10), real.quiet():
            t = parser.parse(w)
        return {"kind": "tree", "tree": real.dump_tree(t), "exc": NOEXC}
    except real.Timeout:
        return {"kind": "timeout", "tree": NOTREE, "exc": NOEXC}
    except real.parglare.SyntaxError as e:
        return {"kind": "syntax", "tree": NOTREE, "exc": _exc(real, e, w)}
    except real.parglare.exceptions.DisambiguationError as e:
        return {"kind": "disamb", "tree": NOTREE, "exc": _exc(real, e, w)}
    except Exception as e:  # noqa: BLE001
        return {"kind": "exc", "tree": NOTREE, "exc": dict(NOEXC, cls=type(e).__name__)}


def _run_glr(real, parser, w):
    try:
        with real.guard(10), real.quiet():
            f = parser.parse(w)
            try:
                n = real.capped_int(real.flen(f))
            except real.LoopError:
                n = -1
            trees = []
            if n >= 1:
                idx = sorted({0, n - 1, n // 2})[:3]
                trees = [real.dump_tree(f.get_nonlazy_tree(i)) for i in idx]
            elif n == -1:
                trees = []
        return {"kind": "forest", "n": n, "trees": trees, "exc": NOEXC}
    except real.Timeout:
        return {"kind": "timeout", "n": 0, "trees": [], "exc": NOEXC}
    except real.parglare.SyntaxError as e:
        return {"kind": "syntax", "n": 0, "trees": [], "exc": _exc(real, e, w)}
    except Exception as e:  # noqa: BLE001
        return {"kind": "exc", "n": 0, "trees": [], "exc": dict(NOEXC, cls=type(e).__name__)}


def worker(job):
    from . import real

    g = job["g"]
    text = gen.gtext(g, job.get("extra", ""))
    ws = "\n\r\t "
    consume = job["consume"]
    out = []
    glr_runs = {}
    glrs = {}
    extra = {}
    if job.get("list"):
        # list (non-string) input: terminals with empty bodies and custom recognizers that index input[pos] without a bounds check
        # (as the repository's own tests do); ws=None
        head = text.split("terminals\n")[0]
        # "strlast": the LAST terminal stays a plain string terminal; its recognizer is tried on the list like any other and simply never matches
        # a list slice (round-4 seeded change C10-h: str.startswith on a list raised AttributeError)
        custom = g["terms"][:-1] if job.get("strlast") and len(g["terms"]) >= 2 else g["terms"]
        text = head + "terminals\n" + "".join("%s: ;\n" % t[0] for t in custom) + "".join('%s: "%s";\n' % (t[0], t[2]) for t in g["terms"][len(custom):])
        recs = {t[0]: (lambda name: (lambda inp, pos: inp[pos:pos + 1] if inp[pos] == name else None))(t[2]) for t in custom}
        with real.quiet():
            grammar0 = real.Grammar.from_string(text, recognizers=recs)
        text_or_grammar = grammar0
        ws = None
        extra = {"ws": None}
    elif job.get("icase"):
        with real.quiet():
            text_or_grammar = real.Grammar.from_string(text, ignore_case=True)
    else:
        text_or_grammar = text
    for tables in ("LALR", "SLR"):
        glrs[tables], _err = real.build("glr", text_or_grammar, tables=tables, consume_input=consume, **extra)
    dbg_runs = {}
    for tables, ps, pse in COMBOS + (COMBOS_REST if job.get("allcombos") else []):
        dparser = dglr = None
        if job.get("debug") and (tables, ps, pse) == COMBOS[0]:
            # the same parsers built with debug=True (round-4 seeded change C08-h: a debug print rewrote the skipped layout)
            dparser, _e = real.build("lr", text_or_grammar, tables=tables, prefer_shifts=ps, prefer_shifts_over_empty=pse, build_tree=True, consume_input=consume, debug=True, **extra)
            dglr, _e = real.build("glr", text_or_grammar, tables=tables, consume_input=consume, debug=True, **extra)
        parser, err = real.build("lr", text_or_grammar, tables=tables, prefer_shifts=ps, prefer_shifts_over_empty=pse, build_tree=True,
                                 consume_input=consume, **extra)
        grammar = parser.grammar if parser else (glrs[tables].grammar if glrs[tables] else None)
        if grammar is None:
            continue
        prods, terms = real.prods_json(grammar), real.term_names(grammar)
        tbl = real.table_json(parser) if parser else []
        for w in job["inputs"]:
            wkey = w
            if job.get("list"):
                w = list(w)          # the parser is handed a list of items
                wkey = "".join(w)
            if (tables, wkey) not in glr_runs:
                glr_runs[(tables, wkey)] = _run_glr(real, glrs[tables], w) if glrs[tables] else {"kind": "nobuild", "n": 0, "trees": [], "exc": NOEXC}
            lr = _run_lr(real, parser, w) if parser else {"kind": "nobuild", "tree": NOTREE, "exc": NOEXC}
            hasdbg = (dparser is not None or dglr is not None) and len(dbg_runs) < 6 and len(wkey) <= 8
            lrdbg, glrdbg = {"kind": "none", "tree": NOTREE, "exc": NOEXC}, {"kind": "none", "n": 0, "trees": [], "exc": NOEXC}
            if hasdbg:
                dbg_runs[wkey] = True
                if dparser is not None:
                    lrdbg = _run_lr(real, dparser, w)
                if dglr is not None:
                    glrdbg = _run_glr(real, dglr, w)
            out.append({
                "name": "%s [%s,ps=%d,pse=%d%s%s] @ %r" % (gen.gname(g), tables, ps, pse, "" if consume else ",prefix", (",list-input" + ("(last terminal a string)" if job.get("strlast") else "") if job.get("list") else "") + (",LAYOUT-rule" if job.get("extra") else "") + (",ignore_case" if job.get("icase") else ""), w),
                "listinput": bool(job.get("list")), "overlap": bool(job.get("overlap")),
                "gtext": text, "tables": tables, "ps": ps, "pse": pse, "prio": False, "consume": consume, "origin": job["origin"],
                "built": parser is not None, "build_err": err or "", "prods": prods, "terms": terms, "tbl": tbl,
                "inputstr": wkey, "input": [ord(c) for c in wkey], "n": len(w), "skip": real.skip_table(w, ws), "match": real.match_table(grammar, w),
                "lr": lr, "glr": glr_runs[(tables, wkey)], "hasdbg": hasdbg, "lrdbg": lrdbg, "glrdbg": glrdbg,
            })
    return out


def judge(cases, tag="lr"):
    paths = tlcrun.write_shards(cases, scratch() + "/" + tag, max_bytes=3_000_000, min_shards=8)
    rs = tlcrun.run_shards("LRCheck", "LRCheck.cfg", paths, procs=4, workers=4)
    v = {x[1]: x for r in rs for x in r.verdicts}
    for path in paths:
        try:
            import os
            os.unlink(path)
        except OSError:
            pass
    if len(v) != len(cases):
        raise tlcrun.MachineryFailure("LRCheck: %d cases, %d verdicts" % (len(cases), len(v)))
    out = []
    for i, c in enumerate(cases):
        out.append({"name": c["name"], "gtext": c["gtext"], "tables": c["tables"], "ps": c["ps"], "pse": c["pse"], "consume": c["consume"], "overlap": c.get("overlap", False),
                    "origin": c["origin"], "input": c["inputstr"], "built": c["built"], "build_err": c["build_err"][:120],
                    "lr": {"kind": c["lr"]["kind"], "exc": c["lr"]["exc"]}, "glr": {"kind": c["glr"]["kind"], "n": c["glr"]["n"], "exc": c["glr"]["exc"]},
                    "clauses": sorted(v[i][2]), "flags": v[i][3]})
    return out, {"states": sum(r.distinct for r in rs), "generated": sum(r.generated for r in rs)}


CHUNK_CASES = 90000  # cases recorded and judged at a time (bounds memory)


def build(tier, seed):
    t = Timer()
    jobs = _jobs(tier, seed)
    chunks, cur, n = [], [], 0
    for j in jobs:
        cur.append(j)
        n += len(j["inputs"]) * (len(COMBOS) + (len(COMBOS_REST) if j.get("allcombos") else 0))
        if n >= CHUNK_CASES:
            chunks.append(cur)
            cur, n = [], 0
    if cur:
        chunks.append(cur)
    out, stats = [], {"states": 0, "generated": 0}
    for k, chunk in enumerate(chunks):
        cases = pool.flatten(pool.run_jobs("stage_lr", "worker", chunk))
        log("lr corpus %d/%d: %d jobs, %d cases recorded (%.1fs)" % (k + 1, len(chunks), len(chunk), len(cases), t.s()))
        o, st = judge(cases, tag="lr%d" % k)
        out += o
        for key in stats:
            stats[key] += st[key]
        del cases
    log("lr corpus judged in %.1fs" % t.s())
    return {"cases": out, "stats": stats}


def get(tier, seed):
    return stage.cached("lr-" + tier, {"tier": tier, "seed": seed, "params": PARAMS[tier]}, lambda: build(tier, seed))


def ensure(tier, seed):
    stage.ensure("lr-" + tier, {"tier": tier, "seed": seed, "params": PARAMS[tier]}, lambda: build(tier, seed))


def judge_replay(rc):
    """Re-run one recorded LR case through the real code and TLC."""
    from . import real

    real.init_worker()
    saved = gen.gtext, gen.gname
    gen.gtext = lambda _g, extra="": rc["gtext"]
    gen.gname = lambda _g: rc["name"].split(" [")[0]
    try:
        cases = worker({"g": {"prods": [], "terms": []}, "inputs": [rc["input"]], "origin": "replay", "consume": rc["consume"],
                        "icase": ",ignore_case" in rc["name"]})
    finally:
        gen.gtext, gen.gname = saved
    cases = [c for c in cases if (c["tables"], c["ps"], c["pse"]) == (rc["tables"], rc["ps"], rc["pse"])]
    out, _ = judge(cases, tag="lrreplay")
    return out
