"""Record real GLRParser runs as cases for spec/GLRCheck.tla and spec/GSSTrace.tla."""
from . import gen, real, recglr

ENUM_K = 40  # enumerate every tree of forests up to this size


def tkey(n):
    if n.is_term():
        return ["T", n.symbol.name, n.start_position, n.end_position]
    return ["N", n.production.prod_id, [tkey(c) for c in n]]


def probe_index(forest, i):
    try:
        t = forest[i]
        tkey(t)
        return "tree"
    except IndexError:
        return "IndexError"
    except Exception as e:  # noqa: BLE001
        return type(e).__name__


def forest_observation(forest, enum_k=ENUM_K):
    """Everything C01/C02/C03 need, observed through the public Forest API."""
    obs = {"forest": real.export_forest(forest)}
    count = {"loop": False, "cap": 0, "res": [0, 0, 0, 0], "sol": 0, "amb": 0, "big": "0"}
    enum = {"done": False, "lazy": [], "nonlazy": [], "again": [], "iter": [], "first": [], "oob": []}
    try:
        try:
            n = len(forest)
        except OverflowError:
            # more trees than a Python len() can report (sys.maxsize): the language's limit, not a reply of parglare; the count is
            # then read from Forest.solutions, which len() returns
            n = forest.solutions
        count.update(cap=real.capped_int(n), res=real.residues(n), sol=real.capped_int(forest.solutions), big=str(n))
        count["amb"] = forest.ambiguities
    except real.LoopError:
        count["loop"] = True
        n = None
    if n is not None:
        enum["oob"] = [probe_index(forest, i) for i in (n, n + 1, 2 * n + 3, n + 10**12)]
        if n <= enum_k:
            enum["lazy"] = [tkey(forest[i]) for i in range(n)]
            enum["nonlazy"] = [tkey(forest.get_nonlazy_tree(i)) for i in range(n)]
            enum["again"] = [tkey(forest.get_tree(i)) for i in reversed(range(n))][::-1]
            enum["iter"] = [tkey(t) for t in forest]
            enum["first"] = tkey(forest.get_first_tree())
            enum["done"] = True
    obs["count"] = count
    obs["enum"] = enum
    return obs


EMPTY_FOREST = {"root": 0, "nodes": []}
EMPTY_COUNT = {"loop": False, "cap": 0, "res": [0, 0, 0, 0], "sol": 0, "amb": 0, "big": "0"}
EMPTY_ENUM = {"done": False, "lazy": [], "nonlazy": [], "again": [], "iter": [], "first": [], "oob": []}


def record_case(parser, w, ws, consume=True, trace=True, timeout=10, enum_k=ENUM_K, sample_trees=0):
    g = parser.grammar
    res, exc, ev = recglr.record(parser, w, timeout=timeout)
    case = {
        "input": w,
        "n": len(w),
        "skip": real.skip_table(w, ws),
        "match": real.match_table(g, w),
        "consume": consume,
        "forest": EMPTY_FOREST,
        "count": EMPTY_COUNT,
        "enum": EMPTY_ENUM,
        "trace": ev if trace else [],
        "trees": [],
    }
    if exc is None:
        case["res"] = {"kind": "forest"}
        try:
            with real.guard(timeout):
                case.update(forest_observation(res, enum_k))
                if sample_trees:
                    n = case["count"]["cap"]
                    if not case["count"]["loop"]:
                        idx = sorted({0, n - 1} | {(i * 7919) % n for i in range(sample_trees)}) if n > 0 else []
                        case["trees"] = [real.dump_tree(res.get_nonlazy_tree(i)) for i in idx[: sample_trees + 2]]
        except real.Timeout:
            case["res"] = {"kind": "timeout", "where": "forest-api"}
    elif isinstance(exc, real.Timeout):
        case["res"] = {"kind": "timeout", "where": "parse"}
    elif isinstance(exc, real.parglare.SyntaxError):
        case["res"] = {"kind": "syntax", "exc": real.exc_json(exc, w)}
    else:
        case["res"] = {"kind": "exc", "exc": real.exc_json(exc, w)}
    return case


def grammar_cases(job):
    """Worker entry: one grammar, several table kinds and inputs.
    job = {g, inputs:[str], tables:[..], ws, consume, trace, opts}"""
    g = job["g"]
    text = gen.gtext(g, job.get("extra", ""))
    out = []
    ws = job.get("ws", "\n\r\t ")
    for tables in job.get("tables", ["LALR"]):
        opts = dict(job.get("opts", {}))
        consume = job.get("consume", True)
        parser, err = real.build("glr", text, tables=tables, ws=ws, consume_input=consume, **opts)
        if parser is not None and job.get("pretable"):
            # the same parser constructed from a precomputed table: every GLR default must be the same
            try:
                with real.quiet():
                    parser = real.GLRParser(parser.grammar, table=parser.table, ws=ws, consume_input=consume)
            except Exception as e:  # noqa: BLE001
                parser, err = None, "%s: %s" % (type(e).__name__, e)
        base = {
            "gtext": text,
            "tables": tables,
            "prods": None,
            "terms": None,
        }
        if parser is None:
            out.append({"name": "%s [%s] BUILD" % (gen.gname(g), tables), "build_error": err, **base})
            continue
        base["prods"] = real.prods_json(parser.grammar)
        base["terms"] = real.term_names(parser.grammar)
        tbl = real.table_json(parser) if job.get("trace", True) else []
        for w in job["inputs"]:
            c = record_case(parser, w, ws, consume=consume, trace=job.get("trace", True), enum_k=job.get("enum_k", ENUM_K),
                            sample_trees=job.get("sample_trees", 0))
            c.update(base)
            c["tbl"] = tbl
            c["name"] = "%s [%s%s%s] @ %r" % (gen.gname(g), tables, "" if consume else ",prefix", (",table=precomputed" if job.get("pretable") else "") + "".join(",%s=%s" % kv for kv in sorted(job.get("opts", {}).items())), w)
            out.append(c)
    return out
