"""C05 (construction): the LALR table construction as a machine (spec/LRBuild.tla).

  design level   TLC model-checks LRBuild on families of small grammars for EVERY order of handling a state's symbols: Bounded, Terminates
                 (liveness), Faithful; negative control = the algorithm before fix a3802e2 (finding D4) must violate Bounded
  code -> spec   real constructions recorded through the hooks tbl_pop / tbl_goto / tbl_states, validated by LRBuildTrace.tla"""
import json
import os

from . import gen, pool, stage, stage_tbl, tlcrun
from .common import SPEC, log, scratch, Timer

PARAMS = {"quick": dict(ndesign=45, ntrace=260), "thorough": dict(ndesign=400, ntrace=6000)}


def tla_case(g):
    prods = [{"lhs": "S'", "rhs": [g["prods"][0][0], "STOP"]}] + [{"lhs": lhs, "rhs": list(rhs)} for lhs, rhs in g["prods"]]
    return {"prods": prods, "terms": [t[0] for t in g["terms"]], "name": gen.gname(g)}


class BuildRecorder:
    def __init__(self, grammar):
        self.g = grammar
        self.ev = []
        self.final = None

    def __call__(self, kind, f):
        if kind == "tbl_pop":
            if f["state"].grammar is self.g:
                self.ev.append({"e": "pop", "s": f["state"].state_id, "sym": "", "t": -1, "created": False})
        elif kind == "tbl_goto":
            if f["state"].grammar is self.g:
                self.ev.append({"e": "goto", "s": f["state"].state_id, "sym": f["symbol"].name, "t": f["target"].state_id, "created": bool(f["created"])})
        elif kind == "tbl_states":
            if f["states"] and f["states"][0].grammar is self.g:
                self.final = [sorted([i.production.prod_id, i.position, sorted(x.name for x in i.follow)] for i in s.kernel_items) for s in f["states"]]


def worker(job):
    from . import real

    g = job["g"]
    text = gen.gtext(g)
    case = dict(tla_case(g), origin=job["origin"], gtext=text, built=False, err="", trace=[], final=[])
    try:
        with real.guard(20), real.quiet():
            grammar = real.Grammar.from_string(text)
            rec = BuildRecorder(grammar)
            real._verif.sink = rec
            try:
                os.environ["PARGLARE_VERIF_MAX_STATES"] = "400"
                real.GLRParser(grammar, tables=real.TABLES["LALR"])
            finally:
                real._verif.sink = None
                os.environ.pop("PARGLARE_VERIF_MAX_STATES", None)
        if rec.final is None:
            case["err"] = "no tbl_states event"
        else:
            # the real production order must be the one handed to TLC (S' first, then text order)
            rp = real.prods_json(grammar)
            if [(p["lhs"], p["rhs"]) for p in rp] != [(p["lhs"], p["rhs"]) for p in case["prods"]]:
                case["err"] = "production order differs"
            else:
                case.update(built=True, trace=rec.ev, final=rec.final)
    except Exception as e:  # noqa: BLE001
        case["err"] = "%s: %s" % (type(e).__name__, str(e)[:100])
    return [case]


def _families(n):
    # every handling order of every state is explored: grammars are kept small (the number of orders is factorial in the symbols of a state)
    return stage_tbl.SPECIAL[:2] + gen.WITNESSES[:3] + gen.family(3, 2, limit=(2 * n) // 3, rng_seed=51) + \
        [g for g in gen.family(3, 3, limit=n, rng_seed=52) if len({s for _, r in g["prods"] for s in r}) <= 3][: n // 3]


def design(tier):
    p = PARAMS[tier]
    d = os.path.join(scratch(), "lrbuild-%d" % os.getpid())
    os.makedirs(d, exist_ok=True)
    fam = _families(p["ndesign"])
    cases = [dict(tla_case(g), cix=i) for i, g in enumerate(fam)]
    paths = []
    nsh = 4
    for k in range(nsh):
        path = os.path.join(d, "design%d.json" % k)
        with open(path, "w") as f:
            json.dump(cases[k::nsh], f)
        paths.append(path)
    rs = tlcrun.run_shards("LRBuild", "LRBuild.cfg", paths, procs=4, workers=4, tag="NONE", heavy=True, timeout=3000, allow_violation=True)
    negp = os.path.join(d, "neg.json")
    with open(negp, "w") as f:
        json.dump([dict(tla_case(g), cix=i) for i, g in enumerate(stage_tbl.SPECIAL[:2])], f)
    neg = tlcrun.run_tlc("LRBuild", "LRBuildNeg.cfg", env={"CASES_FILE": negp}, workers=4, tag="NONE", allow_violation=True, timeout=1200)
    return {"grammars": len(fam), "states": sum(r.distinct for r in rs) + neg.distinct, "generated": sum(r.generated for r in rs) + neg.generated,
            "violated": next((r.violated for r in rs if r.violated), None), "neg_violated": neg.violated}


def _jobs(tier, seed):
    p = PARAMS[tier]
    import random

    gs = stage_tbl.SPECIAL + gen.WITNESSES + gen.family(3, 3, limit=p["ntrace"] // 4, rng_seed=55) + gen.family(4, 2, limit=p["ntrace"] // 4, rng_seed=56) + \
        gen.idiom_family(limit=p["ntrace"] // 6, rng_seed=57) + gen.epschain_family(limit=p["ntrace"] // 6, rng_seed=58)
    jobs = [{"g": g, "origin": "det"} for g in gs + gen.ctx_family()]
    rng = random.Random(23000017 * (seed + 1))
    k = 0
    while k < p["ntrace"] // 6:
        g = gen.random_grammar(rng, nprod=(4, 8), r=3)
        if g is None:
            continue
        k += 1
        jobs.append({"g": g, "origin": "rand"})
    return jobs


def build(tier, seed):
    t = Timer()
    cases = pool.flatten(pool.run_jobs("stage_build", "worker", _jobs(tier, seed)))
    built = [c for c in cases if c["built"]]
    log("table constructions: %d recorded (%d not recorded) in %.1fs" % (len(built), len(cases) - len(built), t.s()))
    paths = tlcrun.write_shards(built, scratch() + "/build")
    rs = tlcrun.run_shards("LRBuildTrace", "LRBuildTrace.cfg", paths, procs=4, workers=4, tag="BUILD")
    v = {x[1]: x for r in rs for x in r.verdicts}
    if len(v) != len(built):
        raise tlcrun.MachineryFailure("LRBuildTrace: %d traces, %d verdicts" % (len(built), len(v)))
    out = [{"name": c["name"], "origin": c["origin"], "gtext": c["gtext"], "verdict": v[i][2], "at": v[i][3], "states": v[i][4],
            "events": len(c["trace"]), "merges": sum(1 for e in c["trace"] if e["e"] == "goto" and not e["created"])} for i, c in enumerate(built)]
    unrec = [{"name": c["name"], "err": c["err"], "origin": c["origin"], "gtext": c["gtext"]} for c in cases if not c["built"]]
    log("table constructions validated in %.1fs" % t.s())
    d = design(tier)
    log("LRBuild design level checked in %.1fs" % t.s())
    return {"traces": out, "unrecorded": unrec, "design": d, "stats": {"states": sum(r.distinct for r in rs), "generated": sum(r.generated for r in rs)}}


def get(tier, seed):
    return stage.cached("build-" + tier, {"tier": tier, "seed": seed, "params": PARAMS[tier]}, lambda: build(tier, seed))
