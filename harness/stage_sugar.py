"""C13: sugared grammars vs the documented expansion (Desugar.tla / SugarCheck.tla)."""
import itertools
import random

from . import gen, pool, stage, sugar, tlcrun
from .common import log, scratch, Timer
from .stage_act import dump_tree, helper_kind, tagval

PARAMS = {"quick": dict(ngram=240, nsent=8), "thorough": dict(ngram=6000, nsent=20)}

# greedy pattern grammars in the style of the documentation / tests (sequence whose first part can consume a variable amount)
# (pattern, 1-based index of the greedy item in S's alternative when all ambiguity of the non-greedy form lies in how much
#  that repetition consumes -- then exactly one tree is expected and that item must be maximal -- else 0)
GREEDY_PATTERNS = [
    ("S: a*! a*", 1), ("S: a+! a*", 1), ("S: a?! a*", 1), ("S: a*! b? a*", 0), ("S: (a | b c)*! a*", 1), ("S: a*![comma] a*", 0),
    ("S: A*! a*;\nA: a | a a", 0), ("S: a+! a+", 0), ("S: b a*! a* b?", 2), ("S: (a b?)*! b*", 0), ("S: a* a*!", 2), ("S: a+ a*!", 2),
    ("S: b*! b* a", 1), ("S: a b?! b*", 2),
    # greedy together with a separator (round-4 seeded change C13-g: the greedy flag was lost when the reference was cloned for its separator)
    ("S: a*![comma] a*[comma]", 1), ("S: a+![comma] R?;\nR: comma a+[comma]", 1), ("S: (a b)*![comma] (a b)*[comma]", 1), ("S: a+![comma] a*[comma]", 1),
]


def _jobs(tier, seed):
    p = PARAMS[tier]
    fam = gen.family(3, 3, nts=("S", "A"), terms=gen.PLAIN_TERMS, limit=p["ngram"] // 2, rng_seed=1313) + \
        gen.family(4, 2, nts=("S", "A", "B"), terms=gen.PLAIN_TERMS, limit=p["ngram"] // 2, rng_seed=1314)
    fam = [g for g in fam if not gen.cyclic(g["prods"], [t[0] for t in g["terms"]])]
    jobs = []
    rng = random.Random(13)
    rng2 = random.Random(6000029 * (seed + 1))
    for i, g in enumerate(fam):
        r = rng if i % 4 else rng2
        rules = sugar.from_plain(g, r, p_mult=0.45)
        if i % 3 == 0:
            rules = sugar.strip_none_repetitions(sugar.add_groups(rules, r, 0.5))
        jobs.append({"rules": rules, "greedy": False, "origin": "det" if i % 4 else "rand", "nsent": p["nsent"], "seed": r.randrange(1 << 30)})
        if i % 5 == 2:
            # separators that are RULES (C13's quantifier: "separators that are strings or rules")
            rs = sugar.rule_separator_variant(rules)
            if rs is not None:
                jobs.append({"rules": rs, "greedy": False, "origin": "det", "nsent": p["nsent"], "seed": 7000 + i})
        if i % 5 == 1:
            # the same rules over inline punctuation string terminals ("+"*, "-"?): helper rules named after the string itself
            jobs.append({"rules": sugar.inline_variant(rules), "greedy": False, "inline": True, "origin": "det", "nsent": p["nsent"], "seed": 5000 + i})
    for k, (pat, gi) in enumerate(GREEDY_PATTERNS):
        jobs.append({"pattern": pat, "gi": gi, "greedy": True, "origin": "det", "nsent": p["nsent"], "seed": 1000 + k})
    return jobs


def parse_pattern(pat):
    """tiny reader for the GREEDY_PATTERNS notation -> AST"""
    import re as _re

    rules = []
    gid = [0]

    def items(s):
        out = []
        toks = _re.findall(r"\(|\)|\||[A-Za-z]+|[*+?]!?|\[[a-z]+\]", s)
        pos = [0]

        def seq():
            alts, cur = [], []
            while pos[0] < len(toks):
                t = toks[pos[0]]
                if t == ")":
                    break
                pos[0] += 1
                if t == "|":
                    alts.append(cur)
                    cur = []
                elif t == "(":
                    inner = seq()
                    pos[0] += 1
                    gid[0] += 1
                    cur.append({"kind": "grp", "id": "G%d" % gid[0], "sym": "G%d" % gid[0], "alts": inner, "mult": "", "sep": None, "name": None, "op": "=", "greedy": False})
                elif t[0] in "*+?":
                    cur[-1]["mult"] = t[0]
                    cur[-1]["greedy"] = t.endswith("!")
                elif t[0] == "[":
                    cur[-1]["sep"] = t[1:-1]
                else:
                    cur.append({"sym": t, "mult": "", "sep": None, "name": None, "op": "=", "greedy": False})
            alts.append(cur)
            return alts
        return seq()
    for line in pat.split(";\n"):
        name, body = line.split(":", 1)
        rules.append((name.strip(), items(body.strip().rstrip(";"))))
    return rules


def _akind(g, user):
    return {nt: ("none" if nt in user else (helper_kind(nt) or "none")) for nt in g.nonterminals}


def _glr(real, parser, w, akind_ok=True):
    try:
        with real.guard(6), real.quiet():
            f = parser.parse(w)
            try:
                n = real.flen(f)
            except real.LoopError:
                return {"ok": True, "complete": False, "trees": [], "results": []}
            k = min(n, 12)
            return {"ok": True, "complete": n <= 12, "trees": [dump_tree(f.get_nonlazy_tree(i)) for i in range(k)],
                    "results": [tagval(parser.call_actions(f[i])) for i in range(k)]}
    except real.parglare.SyntaxError:
        return {"ok": False, "complete": True, "trees": [], "results": []}
    except real.Timeout:
        return {"ok": False, "complete": False, "trees": [], "results": [], "timeout": True}


def worker(job):
    from . import real

    rules = parse_pattern(job["pattern"]) if "pattern" in job else job["rules"]
    text = sugar.text(rules)
    rng = random.Random(job["seed"])
    case = {"name": text.replace("\n", " "), "gtext": text, "origin": job["origin"], "ast": sugar.to_tla(rules), "greedy": job["greedy"], "gi": job.get("gi", 0),
            "built": False, "prods": [], "akind": {}, "assign": [], "inputs": [], "err": ""}
    glr, err = real.build("glr", text)
    if glr is None:
        case["err"] = err
        return [case]
    case["built"] = True
    g = glr.grammar
    case["prods"] = real.prods_json(g)
    case["akind"] = _akind(g, {n for n, _ in rules})
    case["assign"] = [[] for _ in g.productions]
    lr, _ = real.build("lr", text)
    # the REAL parsers on the documented expansion written out as plain BNF (with the documented {nops} and built-in actions)
    # (helper names like "+_1" cannot be written as rule names: no written-out expansion for the inline-string variant)
    xtext = sugar.expand_text(sugar.strip_greedy(rules)) if not job["greedy"] and not job.get("inline") else None
    lrx = glrps = glrpsx = None
    if xtext:
        lrx, _ = real.build("lr", xtext)
        glrps, _ = real.build("glr", text, prefer_shifts=True)
        glrpsx, _ = real.build("glr", xtext, prefer_shifts=True)
    case["xgrammar"] = {"present": xtext is not None, "lr_built": lr is not None, "lrx_built": lrx is not None}
    plain = None
    if job["greedy"]:
        plain, _ = real.build("glr", sugar.text(sugar.strip_greedy(rules)))
    alpha = sorted(sugar._terms_of([a for _, alts in rules for a in alts]))
    words = [list(w) for n in range(0, 4) for w in itertools.product([sugar.TERMS[t] for t in alpha], repeat=n)]
    if len(words) > 60:
        words = words[:20] + rng.sample(words[20:], 40)
    words += sugar.sentences(rules, rng, n=job["nsent"], budget=8)
    if job["greedy"]:
        words += [["a"] * k for k in range(4, 7)]
        if "comma" in alpha:
            words += [w for w in ([["a", ",", "a"], ["a", ",", "a", ",", "a"], ["a", "b", ",", "a", "b"], ["a", ",", "a", ",", "a", ",", "a"], ["a", "b", ",", "a", "b", ",", "a", "b"]])
                      if set(w) <= {sugar.TERMS[t] for t in alpha}]
    seen = set()
    tname = {v: k for k, v in sugar.TERMS.items()}
    for toks in words:
        if tuple(toks) in seen:
            continue
        seen.add(tuple(toks))
        w = " ".join(toks)
        e = {"toks": [tname[t] for t in toks], "glr": _glr(real, glr, w), "lr": {"built": lr is not None, "ok": False, "result": ["n"]},
             "plain": {"ok": False, "complete": True, "results": []}}
        if lr is not None:
            try:
                with real.guard(5), real.quiet():
                    e["lr"] = {"built": True, "ok": True, "result": tagval(lr.parse(w))}
            except Exception:  # noqa: BLE001
                pass
        def acc(p):
            if p is None:
                return False
            try:
                with real.guard(5), real.quiet():
                    p.parse(w)
                return True
            except Exception:  # noqa: BLE001
                return False
        e["x"] = {"lr": acc(lr) if lrx is not None and lr is not None else False, "lrx": acc(lrx) if lrx is not None and lr is not None else False,
                  "ps": acc(glrps) if glrps is not None and glrpsx is not None else False,
                  "psx": acc(glrpsx) if glrps is not None and glrpsx is not None else False}
        if plain is not None:
            pr = _glr(real, plain, w)
            e["plain"] = {"ok": pr["ok"], "complete": pr["complete"], "results": pr["results"]}
        case["inputs"].append(e)
    return [case]


def judge(cases, tag_="sugar"):
    paths = tlcrun.write_shards(cases, scratch() + "/" + tag_, max_bytes=2_500_000, min_shards=8)
    rs = tlcrun.run_shards("SugarCheck", "SugarCheck.cfg", paths, procs=4, workers=4)
    per = {}
    for r in rs:
        for v in r.verdicts:
            per.setdefault(v[1], []).append((v[2], sorted(v[3])))
    casev = {v[1]: v for r in rs for v in tlcrun.extract_tuples(r.out, "CASE")}
    out = []
    for i, c in enumerate(cases):
        ins = []
        for iid, cl in per.get(i, []):
            e = c["inputs"][iid - 1]
            ins.append({"toks": e["toks"], "clauses": cl, "glr_ok": e["glr"]["ok"], "ntrees": len(e["glr"]["trees"])})
        if c["built"] and len(ins) != len(c["inputs"]):
            raise tlcrun.MachineryFailure("SugarCheck: case %d has %d inputs but %d verdicts" % (i, len(c["inputs"]), len(ins)))
        out.append({"name": c["name"], "gtext": c["gtext"], "origin": c["origin"], "greedy": c["greedy"], "built": c["built"], "err": c["err"],
                    "case_clauses": sorted(casev[i][2]) if i in casev else [], "inputs": ins})
    return out, {"states": sum(r.distinct for r in rs), "generated": sum(r.generated for r in rs)}


def build(tier, seed):
    t = Timer()
    cases = pool.flatten(pool.run_jobs("stage_sugar", "worker", _jobs(tier, seed), chunksize=4))
    log("sugar corpus: %d grammars, %d inputs in %.1fs" % (len(cases), sum(len(c["inputs"]) for c in cases), t.s()))
    out, stats = judge(cases)
    log("sugar corpus judged in %.1fs" % t.s())
    return {"cases": out, "stats": stats}


def get(tier, seed):
    return stage.cached("sugar-" + tier, {"tier": tier, "seed": seed, "params": PARAMS[tier]}, lambda: build(tier, seed))
