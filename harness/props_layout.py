"""C14 decided on the layout stage (Layout.tla)."""
from . import stage_layout
from .checklib import Outcome
from .common import MachineryFailure, seed, tier


def c14(replay_case=None):
    out = Outcome("C14")
    if replay_case is not None:
        raise MachineryFailure("C14 replay: re-run harness/stage_layout.worker on the recorded grammar and token sequence")
    r = stage_layout.get(tier(), seed())
    st = r["stats"]
    out.cov["states"], out.cov["transitions"] = st["states"], st["generated"]
    for c in r["cases"]:
        out.count(c["nvariants"])
        out.cov["traces_validated_against_impl"] += c["nvariants"]
        if c["nvariants"] >= 3 and ("ok:" in c["lr_kinds"] or c["comments"]):
            out.nontrivial(c["name"])
            out.sample({"case": c["name"], "variants": c["texts"], "lr_outcomes": c["lr_kinds"]})
        for cl in c["clauses"]:
            out.fail(cl, c["name"], {"kind": "layout-case", "name": c["name"], "texts": c["texts"], "tlc": {"clauses": c["clauses"]}}, origin=c["origin"])
    out.assumptions = ["terminals are single characters, so every token boundary is independent of layout",
                       "token starts of each rendered variant are known by construction (the harness renders token sequences); error positions are mapped to tokens through them in TLA+",
                       "the LAYOUT rule of the pair comparison matches runs of exactly the ws characters (or nothing)"]
    return out.finish(extra_cov={
        "rule": "cases = token sequences (all <= 2 tokens, sentences up to 6 tokens, single-edit corruptions) of small grammars, each rendered with 6 (thorough 12) layout fillings: "
                "none, blanks, newlines, tabs, CR; for LAYOUT grammars line comments and nested block comments before, between and after tokens; LR and GLR outcomes must coincide across "
                "fillings; ws parameter (default and three custom character sets with regex-special characters) vs an equivalent LAYOUT rule: trees with positions and layout_content, "
                "error positions; evaluations = rendered variants; non-trivial = sentence or comment-layout case with >= 3 variants",
        "token_sequences": len(r["cases"])})
