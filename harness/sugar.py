"""Sugared grammar ASTs (repetition, optional, separators, named matches) shared by C09 and C13 generators.

rules: list of (name, [alternative]); alternative: list of items; item: dict(sym, mult in '', '+', '*', '?', sep or None,
name or None, op '=' | '?=', greedy bool).  Terminals are one-letter names declared as strings of themselves; 'comma' is ','.
"""
import random

TERMS = {"a": "a", "b": "b", "c": "c", "comma": ",", "semi": ";", "+": "+", "-": "-", "~": "~"}
# inline string terminals made of punctuation (the symbol's name is its text; helper rules are named "+_0", "-_opt", ...)
INLINE = {"a": "+", "b": "-", "c": "~"}


def item_text(it):
    if it.get("kind") == "grp":
        base = "(" + " | ".join(" ".join(item_text(i) for i in alt) if alt else "EMPTY" for alt in it["alts"]) + ")"
    else:
        base = ('"%s"' % it["sym"]) if it["sym"] in INLINE.values() else it["sym"]
    s = base + it["mult"]
    if it["mult"] and it.get("greedy"):
        s += "!"
    if it.get("sep"):
        s += "[%s]" % it["sep"]
    if it.get("name"):
        s = "%s%s%s" % (it["name"], it["op"], s)
    return s


def text(rules, used_terms=None, acts=None):
    """acts: {rule name: built-in action name} written as a decorator line `@name` in front of the rule"""
    out = ""
    done = set()
    for name, alts in rules:
        if acts and name in acts and name not in done:
            out += "@%s\n" % acts[name]
            done.add(name)
        out += "%s: %s;\n" % (name, " | ".join(" ".join(item_text(i) for i in alt) if alt else "EMPTY" for alt in alts))
    terms = [t for t in (used_terms or sorted(_terms_of([a for _, alts in rules for a in alts]))) if t not in INLINE.values()]
    if terms:
        out += "terminals\n" + "".join('%s: "%s";\n' % (t, TERMS[t]) for t in terms)
    return out


def rule_separator_variant(rules):
    """the same rules with every separator being a RULE (Sepr: comma | semi) instead of a terminal; None when no separator is used"""
    import copy

    r = copy.deepcopy(rules)
    used = [False]

    def walk(alts):
        for alt in alts:
            for it in alt:
                if it.get("kind") == "grp":
                    walk(it["alts"])
                if it.get("sep"):
                    it["sep"] = "Sepr"
                    used[0] = True
    for _, alts in r:
        walk(alts)
    if not used[0]:
        return None
    plain = {"mult": "", "sep": None, "name": None, "op": "=", "greedy": False}
    return r + [("Sepr", [[dict(plain, sym="comma")], [dict(plain, sym="semi")]])]


def inline_variant(rules):
    """the same rules with the terminals a, b, c written as inline punctuation strings "+", "-", "~" """
    import copy

    r = copy.deepcopy(rules)

    def walk(alts):
        for alt in alts:
            for it in alt:
                if it.get("kind") == "grp":
                    walk(it["alts"])
                elif it["sym"] in INLINE:
                    it["sym"] = INLINE[it["sym"]]
    for _, alts in r:
        walk(alts)
    return r


def _terms_of(alts):
    out = set()
    for alt in alts:
        for i in alt:
            if i.get("sep") and i["sep"] in TERMS:
                out.add(i["sep"])
            if i.get("kind") == "grp":
                out |= _terms_of(i["alts"])
            elif i["sym"] in TERMS:
                out.add(i["sym"])
    return out


def to_tla(rules):
    """the AST in the record shape of spec/Desugar.tla"""
    def item(it):
        d = {"kind": it.get("kind", "sym"), "mult": it["mult"], "sep": it.get("sep") or "", "greedy": bool(it.get("greedy"))}
        if d["kind"] == "grp":
            d["id"] = it["id"]
            d["alts"] = [[item(i) for i in alt] for alt in it["alts"]]
        else:
            d["sym"] = it["sym"]
        return d
    return [{"name": n, "alts": [[item(i) for i in alt] for alt in alts]} for n, alts in rules]


def strip_greedy(rules):
    import copy

    r = copy.deepcopy(rules)

    def walk(alts):
        for alt in alts:
            for it in alt:
                it["greedy"] = False
                if it.get("kind") == "grp":
                    walk(it["alts"])
    for _, alts in r:
        walk(alts)
    return r


def add_groups(rules, rng, p_group=0.3):
    """wrap random sub-sequences of alternatives into parenthesised groups (optionally with a second alternative and a multiplicity)"""
    k = [0]
    out = []
    for name, alts in rules:
        nalts = []
        for alt in alts:
            if len(alt) >= 2 and rng.random() < p_group:
                i = rng.randrange(len(alt) - 1)
                j = rng.randrange(i + 1, len(alt)) + 1
                k[0] += 1
                inner = [alt[i:j]]
                if rng.random() < 0.4:
                    inner.append([{"sym": rng.choice(["a", "b", "c"]), "mult": "", "sep": None, "name": None, "op": "=", "greedy": False}])
                grp = {"kind": "grp", "id": "G%d" % k[0], "alts": inner, "mult": rng.choice(["", "", "+", "*", "?"]), "sep": None,
                       "name": None, "op": "=", "greedy": False, "sym": "G%d" % k[0]}
                if grp["mult"] in "+*" and grp["mult"] and rng.random() < 0.3:
                    grp["sep"] = "comma"
                alt = alt[:i] + [grp] + alt[j:]
            nalts.append(alt)
        out.append((name, nalts))
    return out


def strip_none_repetitions(rules):
    """A repetition over a symbol or group whose result can be None (some alternative is just an optional item, or just a reference
    to such a rule/group) is not generated: the built-in collect actions drop None elements after the first, which the documentation
    does not describe either way (DESIGN 5 leniency).  In place; to be called again after groups were added."""
    noneable = set()

    def alts_noneable(alts):
        return any(len(a) == 1 and (a[0]["mult"] == "?" or (a[0]["mult"] == "" and base_noneable(a[0]))) for a in alts)

    def base_noneable(it):
        if it.get("kind") == "grp":
            return alts_noneable(it["alts"])
        return it["sym"] in noneable

    # stripping `X*` down to `X` can make the enclosing rule None-valued in turn: repeat until nothing changes
    changed = True
    while changed:
        changed = False
        ch = True
        while ch:
            ch = False
            for n, alts in rules:
                if n not in noneable and alts_noneable(alts):
                    noneable.add(n)
                    ch = True

        def walk(alts):
            hit = False
            for a in alts:
                for it in a:
                    if it.get("kind") == "grp":
                        hit = walk(it["alts"]) or hit
                    if it["mult"] in ("+", "*") and base_noneable(it):
                        it["mult"], it["sep"] = "", None
                        hit = True
            return hit
        for _, alts in rules:
            changed = walk(alts) or changed
    return rules


def from_plain(g, rng, p_mult=0.35, p_name=0.0, p_sep=0.4):
    """decorate a plain family grammar (harness.gen) with sugar"""
    by = {}
    order = []
    for lhs, rhs in g["prods"]:
        if lhs not in by:
            by[lhs] = []
            order.append(lhs)
        alt = []
        for s in rhs:
            it = {"sym": s, "mult": "", "sep": None, "name": None, "op": "=", "greedy": False}
            if rng.random() < p_mult:
                it["mult"] = rng.choice(["+", "*", "?"])
                if it["mult"] in "+*" and rng.random() < p_sep:
                    it["sep"] = "comma"
            alt.append(it)
        by[lhs].append(alt)
    rules = [(n, by[n]) for n in order]
    strip_none_repetitions(rules)
    if p_name:
        for name, alts in rules:
            if rng.random() < p_name:
                k = 0
                for alt in alts:
                    for it in alt:
                        if rng.random() < 0.7:
                            k += 1
                            it["name"] = "m%d" % k
                            it["op"] = rng.choice(["=", "=", "?="])
    return rules


def derive(rules, rng, sym, depth, out, budget):
    """random derivation of terminal texts; returns False when the budget is exhausted"""
    if len(out) > budget:
        return False
    if isinstance(sym, str) and sym in TERMS:
        out.append(TERMS[sym])
        return True
    alts = sym["alts"] if isinstance(sym, dict) else dict(rules)[sym]
    if depth <= 0:
        # prefer alternatives without nonterminals
        flat = [a for a in alts if all((i.get("kind") != "grp" and i["sym"] in TERMS) or i["mult"] in ("*", "?") for i in a)]
        alts = flat or alts
        if depth < -6:
            return False
    alt = rng.choice(alts)
    for it in alt:
        n = 1
        if it["mult"] == "?":
            n = rng.choice([0, 1]) if depth > 0 or (it.get("kind") != "grp" and it["sym"] in TERMS) else 0
        elif it["mult"] == "*":
            n = rng.choice([0, 0, 1, 2]) if depth > 0 or (it.get("kind") != "grp" and it["sym"] in TERMS) else 0
        elif it["mult"] == "+":
            n = rng.choice([1, 1, 2, 3])
        for k in range(n):
            if k and it.get("sep"):
                if it["sep"] in TERMS:
                    out.append(TERMS[it["sep"]])
                elif not derive(rules, rng, it["sep"], depth - 1, out, budget):      # the separator is a RULE
                    return False
            if not derive(rules, rng, it if it.get("kind") == "grp" else it["sym"], depth - 1, out, budget):
                return False
    return True


def sentences(rules, rng, n=12, depth=3, budget=9):
    res, seen = [], set()
    for _ in range(n * 6):
        out = []
        if derive(rules, rng, rules[0][0], depth, out, budget) and len(out) <= budget and tuple(out) not in seen:
            seen.add(tuple(out))
            res.append(out)
        if len(res) >= n:
            break
    return res


def expand_text(rules):
    """The documented plain-BNF expansion (docs/grammar_language.md) as grammar TEXT, including the documented {nops} mark and
    built-in actions; groups become rules named after their id.  Used to run the REAL parser on the documented form."""
    lines, done = [], set()

    def ref(it):
        base = it["id"] if it.get("kind") == "grp" else it["sym"]
        if it.get("kind") == "grp" and base not in done:
            done.add(base)
            rule(base, it["alts"])
        if not it["mult"]:
            return base
        sep = ("_" + it["sep"]) if it.get("sep") else ""
        one = "%s_1%s" % (base, sep)
        if it["mult"] in "+*" and one not in done:
            done.add(one)
            lines.append("@collect%s\n%s: %s %s%s | %s;" % ("_sep" if sep else "", one, one, (it["sep"] + " ") if sep else "", base, base))
        if it["mult"] == "+":
            return one
        if it["mult"] == "*":
            zero = "%s_0%s" % (base, sep)
            if zero not in done:
                done.add(zero)
                lines.append("%s: %s {nops} | EMPTY;" % (zero, one))
            return zero
        opt = base + "_opt"
        if opt not in done:
            done.add(opt)
            lines.append("@optional\n%s: %s | EMPTY;" % (opt, base))
        return opt

    def rule(name, alts):
        body = " | ".join(" ".join(ref(i) for i in alt) if alt else "EMPTY" for alt in alts)
        lines.append("%s: %s;" % (name, body))

    top = []
    for name, alts in rules:
        n0 = len(lines)
        rule(name, alts)
        top.append(lines.pop())  # the user rule itself; helpers stay in `lines`
    out = "\n".join(top + lines) + "\n"
    terms = sorted(_terms_of([a for _, alts in rules for a in alts]))
    if terms:
        out += "terminals\n" + "".join('%s: "%s";\n' % (t, TERMS[t]) for t in terms)
    return out
