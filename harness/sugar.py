"""Sugared grammar ASTs (repetition, optional, separators, named matches) shared by C09 and C13 generators.

rules: list of (name, [alternative]); alternative: list of items; item: dict(sym, mult in '', '+', '*', '?', sep or None,
name or None, op '=' | '?=', greedy bool).  Terminals are one-letter names declared as strings of themselves; 'comma' is ','.
"""
import random

TERMS = {"a": "a", "b": "b", "c": "c", "comma": ","}


def item_text(it):
    s = it["sym"] + it["mult"]
    if it["mult"] and it.get("greedy"):
        s += "!"
    if it.get("sep"):
        s += "[%s]" % it["sep"]
    if it.get("name"):
        s = "%s%s%s" % (it["name"], it["op"], s)
    return s


def text(rules, used_terms=None):
    out = ""
    for name, alts in rules:
        out += "%s: %s;\n" % (name, " | ".join(" ".join(item_text(i) for i in alt) if alt else "EMPTY" for alt in alts))
    terms = used_terms or sorted({i["sym"] for _, alts in rules for alt in alts for i in alt if i["sym"] in TERMS} |
                                 {i["sep"] for _, alts in rules for alt in alts for i in alt if i.get("sep")})
    out += "terminals\n" + "".join('%s: "%s";\n' % (t, TERMS[t]) for t in terms)
    return out


def from_plain(g, rng, p_mult=0.35, p_name=0.0, p_sep=0.4):
    """decorate a plain family grammar (harness.gen) with sugar"""
    by = {}
    order = []
    for lhs, rhs in g["prods"]:
        if lhs not in by:
            by[lhs] = []
            order.append(lhs)
        alt = []
        for s in rhs:
            it = {"sym": s, "mult": "", "sep": None, "name": None, "op": "=", "greedy": False}
            if rng.random() < p_mult:
                it["mult"] = rng.choice(["+", "*", "?"])
                if it["mult"] in "+*" and rng.random() < p_sep:
                    it["sep"] = "comma"
            alt.append(it)
        by[lhs].append(alt)
    rules = [(n, by[n]) for n in order]
    if p_name:
        for name, alts in rules:
            if rng.random() < p_name:
                k = 0
                for alt in alts:
                    for it in alt:
                        if rng.random() < 0.7:
                            k += 1
                            it["name"] = "m%d" % k
                            it["op"] = rng.choice(["=", "=", "?="])
    return rules


def derive(rules, rng, sym, depth, out, budget):
    """random derivation of terminal texts; returns False when the budget is exhausted"""
    if len(out) > budget:
        return False
    if sym in TERMS:
        out.append(TERMS[sym])
        return True
    alts = dict(rules)[sym]
    if depth <= 0:
        # prefer alternatives without nonterminals
        flat = [a for a in alts if all(i["sym"] in TERMS or i["mult"] in ("*", "?") for i in a)]
        alts = flat or alts
        if depth < -6:
            return False
    alt = rng.choice(alts)
    for it in alt:
        n = 1
        if it["mult"] == "?":
            n = rng.choice([0, 1]) if depth > 0 or it["sym"] in TERMS else 0
        elif it["mult"] == "*":
            n = rng.choice([0, 0, 1, 2]) if depth > 0 or it["sym"] in TERMS else 0
        elif it["mult"] == "+":
            n = rng.choice([1, 1, 2, 3])
        for k in range(n):
            if k and it.get("sep"):
                out.append(TERMS[it["sep"]])
            if not derive(rules, rng, it["sym"], depth - 1, out, budget):
                return False
    return True


def sentences(rules, rng, n=12, depth=3, budget=9):
    res, seen = [], set()
    for _ in range(n * 6):
        out = []
        if derive(rules, rng, rules[0][0], depth, out, budget) and len(out) <= budget and tuple(out) not in seen:
            seen.add(tuple(out))
            res.append(out)
        if len(res) >= n:
            break
    return res
