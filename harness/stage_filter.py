"""C18: recorded dynamic-filter protocols (FilterCheck.tla) and precedence-encoding filters (Prec.tla)."""
import itertools
import random

from . import pool, stage, stage_prec, tlcrun
from .common import log, scratch, Timer

PARAMS = {"quick": dict(ntab=26, nexpr=9), "thorough": dict(ntab=400, nexpr=24)}
OPNAMES = {"+": "PLUS", "-": "MINUS", "*": "MUL", "/": "DIV", "^": "POW", "%": "MOD"}


def grammar_text(table, order, static, dynprods, dynterms):
    alts = []
    for a in order:
        if a in table:
            pr, assoc = table[a]
            meta = ([assoc, str(pr)] if static else []) + (["dynamic"] if a in dynprods else [])
            alts.append("E %s E%s" % (OPNAMES[a], (" {%s}" % ", ".join(meta)) if meta else ""))
        elif a == "paren":
            alts.append('"(" E ")"')
        else:
            alts.append('"n"')
    s = "E: " + " | ".join(alts) + ";\nterminals\n"
    for o in table:
        s += '%s: "%s"%s;\n' % (OPNAMES[o], o, " {dynamic}" if o in dynterms else "")
    return s


def _jobs(tier, seed):
    p = PARAMS[tier]
    rng = random.Random(1818)
    rng2 = random.Random(9000011 * (seed + 1))
    jobs = []
    for i in range(p["ntab"]):
        r = rng if i % 3 else rng2
        k = r.randint(1, 3)
        ops = r.sample(stage_prec.OPS, k)
        nl = r.randint(1, k)
        nums = sorted(r.sample([1, 2, 3, 5, 7], nl))
        assoc = [r.choice(["left", "right"]) for _ in range(nl)]
        table = {o: (nums[l], assoc[l]) for o, l in zip(ops, [r.randrange(nl) for _ in ops])}
        order = list(ops) + ["paren", "n"]
        r.shuffle(order)
        # every subset of productions / terminals marked dynamic (k <= 3: at most 64 combinations, sampled down)
        subsets = [(dp, dt) for n1 in range(k + 1) for dp in itertools.combinations(ops, n1) for n2 in range(k + 1) for dt in itertools.combinations(ops, n2)]
        for dp, dt in (subsets if len(subsets) <= 6 else r.sample(subsets, 6)):
            jobs.append({"table": table, "order": order, "dynprods": list(dp), "dynterms": list(dt), "origin": "det" if i % 3 else "rand", "nexpr": p["nexpr"],
                         "debug": i % 4 == 1})
        jobs.append({"table": table, "order": order, "dynprods": list(ops), "dynterms": list(ops), "origin": "det" if i % 3 else "rand", "nexpr": p["nexpr"], "prec": True})
        # only the operator TERMINALS marked dynamic, no production: the filter sees the shifts alone; rejecting every shift where a reduction is
        # possible encodes one flat left-associative level (round-3 seeded change C18-e: a dynamic terminal no longer made a conflict dynamic)
        jobs.append({"table": {o: (1, "left") for o in table}, "order": order, "dynprods": [], "dynterms": list(ops), "origin": "det" if i % 3 else "rand",
                     "nexpr": p["nexpr"], "prec": True, "termsonly": True})
    return jobs


class Recorder:
    def __init__(self, real, policy, rejectp=None, prec=None):
        self.real, self.policy, self.rejectp, self.prec = real, policy, rejectp, prec
        self.calls = []

    def __call__(self, context, from_state, to_state, action, production, subresults):
        real = self.real
        if action is None:
            self.calls.append({"a": "I", "p": -1, "sym": "", "pos": -1, "spans": [], "ret": True,
                               "allnone": from_state is None and to_state is None and production is None and subresults is None})
            return None
        if action is real.SHIFT:
            tok = context.token
            ret = True if self.policy != "prec" else bool(self.prec(context, from_state, to_state, action, production, subresults))
            self.calls.append({"a": "S", "p": -1, "sym": to_state.symbol.name, "pos": tok.position if tok is not None and tok.position is not None else -1,
                               "spans": [], "ret": ret, "allnone": False})
            return ret
        spans = []
        for x in subresults or []:
            s, e = getattr(x, "start_position", None), getattr(x, "end_position", None)
            spans.append([-1 if s is None else s, -1 if e is None else e])
        if self.policy == "reject":
            ret = production.prod_id != self.rejectp
        elif self.policy == "prec":
            ret = bool(self.prec(context, from_state, to_state, action, production, subresults))
        else:
            ret = True
        self.calls.append({"a": "R", "p": production.prod_id, "sym": "", "pos": -1, "spans": spans, "ret": ret, "allnone": False})
        return ret


def _run(real, parser, w, glr):
    try:
        with real.guard(10), real.quiet():
            r = parser.parse(w)
            if glr:
                n = len(r)
                return "trees", [real.dump_tree(r.get_nonlazy_tree(i)) for i in range(min(n, 30))], n <= 30
            return "trees", [real.dump_tree(r)], True
    except real.Timeout:
        return "timeout", [], True
    except real.parglare.SyntaxError:
        return "syntax", [], True
    except Exception as e:  # noqa: BLE001
        return "exc:" + type(e).__name__, [], True


def worker(job):
    from . import real

    table, order = job["table"], job["order"]
    ops = list(table)
    out = []
    rng = random.Random(hash(str(sorted(table.items()))) & 0xFFFFFF)
    exprs = [["n"], ["n", ops[0], "n"], ["n", ops[0]], ["n", ops[-1], "n", ops[0], "n"]]
    for a in ops:
        for b in ops:
            exprs.append(["n", a, "n", b, "n", a, "n"])
    while len(exprs) < job["nexpr"]:
        exprs.append(stage_prec.gen_expr(rng, ops, 3))
    exprs = [e for e in exprs if len(e) <= 9][: job["nexpr"]]
    if job.get("prec"):
        # precedence-encoding filter on the grammar WITHOUT static marks, everything dynamic: judged by Prec.tla
        text = grammar_text(table, order, False, [] if job.get("termsonly") else ops, ops)
        ntable = {OPNAMES[o]: v for o, v in table.items()}
        flt = stage_prec.make_prec_filter(real, ntable)
        lr, e1 = real.build("lr", text, prefer_shifts=False, prefer_shifts_over_empty=False, dynamic_filter=flt)
        glr, e2 = real.build("glr", text, dynamic_filter=flt)
        case = {"name": ("prec-filter(terminals only) " if job.get("termsonly") else "prec-filter ") + text.replace("\n", " "), "gtext": text, "origin": job["origin"],
                "ops": {o: {"prio": p, "assoc": a} for o, (p, a) in table.items()}, "built": lr is not None and glr is not None, "strat": False,
                "filter": True, "exprs": [], "build_err": (e1 or e2 or "")}
        none = {"kind": "none", "tree": ["?", ""]}
        if case["built"]:
            for toks in exprs:
                w = " ".join(toks)
                flr = stage_prec._parse(real, lr, w)
                fglr = stage_prec._glr(real, glr, w)
                # neutral values for the C06 fields of Prec.tla (this case only carries the filter clause)
                case["exprs"].append({"toks": toks, "lr": flr, "glr": fglr, "strat_plain": none, "strat_marked": none, "flr": flr, "fglr": fglr})
        return [{"prec_case": case}]
    dynprods, dynterms = job["dynprods"], job["dynterms"]
    for parser_kind, static, variant in (("lr", True, ""), ("glr", False, ""), ("glr", True, ""), ("lr", False, "default-strategies")):
        text = grammar_text(table, order, static, dynprods, dynterms)
        kw = dict(prefer_shifts=False, prefer_shifts_over_empty=False) if parser_kind == "lr" and not variant else {}
        if parser_kind == "lr":
            kw["build_tree"] = True
        # "default-strategies": Parser with its default prefer-shift strategies on the grammar without static marks; the unfiltered reference is
        # the parser of the same grammar WITHOUT any dynamic mark (round-3 seeded change C18-f: a dynamic mark changed the static table)
        plain, err = real.build(parser_kind, grammar_text(table, order, static, [], []) if variant else text, **kw)
        if plain is None:
            continue
        with real.quiet():
            g = real.Grammar.from_string(text)
        dyn = [bool(p.dynamic) for p in g.productions]
        dterms = [t.name for t in g.terminals.values() if t.dynamic]
        opprods = [p.prod_id for p in g.productions if p.dynamic]
        policies = [("accept", None)] + ([] if variant else [("reject", pid) for pid in opprods[:2]])
        for policy, rp in policies:
            rec = Recorder(real, policy, rp)
            # every fourth table: the filtered parser is built with debug=True (finding D49: the debug message of _call_dynamic_filter was
            # assembled in the variables that are then handed to the filter)
            dbg = {"debug": True} if job.get("debug") else {}
            parser, err = real.build(parser_kind, text, dynamic_filter=rec, **kw, **dbg)
            if parser is None and not variant:
                continue
            for toks in exprs:
                # layout of varying width in front of every token (also the first): "exactly the result" includes every node's layout_content
                w = "".join(" " * ((i + len(toks)) % 3) + t for i, t in enumerate(toks)) if len(toks) > 1 else " " + toks[0]
                if any(a[-1].isalnum() and b[0].isalnum() for a, b in zip(toks, toks[1:])):
                    w = " ".join(toks)
                pk, ptrees, pcomplete = _run(real, plain, w, parser_kind == "glr")
                rec.calls = []
                if parser is None:
                    k, trees, complete = "exc:construction:" + (err or "")[:40], [], True
                else:
                    k, trees, complete = _run(real, parser, w, parser_kind == "glr")
                out.append({"name": "%s [%s%s,%s%s%s] @ %r" % (text.replace("\n", " "), parser_kind, "," + variant if variant else "", policy, "" if rp is None else ":%d" % rp, ",debug=True" if dbg else "", w),
                            "gtext": text, "parser": parser_kind, "policy": policy, "rejectp": -1 if rp is None else rp, "input": w, "origin": job["origin"],
                            "dynprods": dyn, "dynterms": dterms, "calls": list(rec.calls), "kind": k, "trees": trees, "plainkind": pk, "plain": ptrees,
                            "complete": complete and pcomplete})
    return out


def judge(cases, tag_="filter"):
    paths = tlcrun.write_shards(cases, scratch() + "/" + tag_, max_bytes=2_500_000, min_shards=8)
    rs = tlcrun.run_shards("FilterCheck", "FilterCheck.cfg", paths, procs=4, workers=4)
    v = {x[1]: x for r in rs for x in r.verdicts}
    if len(v) != len(cases):
        raise tlcrun.MachineryFailure("FilterCheck: %d cases, %d verdicts" % (len(cases), len(v)))
    out = []
    for i, c in enumerate(cases):
        out.append({k: c[k] for k in ("name", "gtext", "parser", "policy", "rejectp", "input", "origin", "kind", "plainkind")} |
                   {"ncalls": len(c["calls"]), "clauses": sorted(v[i][2]), "flags": v[i][3]})
    return out, {"states": sum(r.distinct for r in rs), "generated": sum(r.generated for r in rs)}


def build(tier, seed):
    t = Timer()
    res = pool.flatten(pool.run_jobs("stage_filter", "worker", _jobs(tier, seed), chunksize=2))
    cases = [c for c in res if "prec_case" not in c]
    prec_cases = [c["prec_case"] for c in res if "prec_case" in c]
    log("filter corpus: %d protocol cases, %d precedence-filter tables in %.1fs" % (len(cases), len(prec_cases), t.s()))
    out, stats = judge(cases)
    pout, pstats = stage_prec.judge(prec_cases, tag_="precfilter")
    stats["states"] += pstats["states"]
    stats["generated"] += pstats["generated"]
    log("filter corpus judged in %.1fs" % t.s())
    return {"cases": out, "prec": pout, "stats": stats}


def get(tier, seed):
    return stage.cached("filter-" + tier, {"tier": tier, "seed": seed, "params": PARAMS[tier]}, lambda: build(tier, seed))
