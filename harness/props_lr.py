"""C04, C08, C10 (and the LR half of C17) decided on the shared LR stage (LRCheck.tla)."""
from . import stage_glr, stage_lr
from .checklib import Outcome
from .common import seed, tier


def replay_obj(c):
    return {"kind": "lr-case", "name": c["name"], "gtext": c["gtext"], "tables": c["tables"], "ps": c["ps"], "pse": c["pse"],
            "consume": c["consume"], "input": c["input"], "observed": {"built": c["built"], "lr": c["lr"], "glr": c["glr"]},
            "tlc": {"clauses": c["clauses"], "flags": c["flags"]}}


def _cases(replay_case):
    if replay_case is not None:
        return stage_lr.judge_replay(replay_case), {"states": 0, "generated": 0}
    r = stage_lr.get(tier(), seed())
    return r["cases"], r["stats"]


def run(prop, select, clause_ok, nontrivial, rule, assumptions, replay_case=None, extra=None):
    out = Outcome(prop)
    cases, st = _cases(replay_case)
    out.cov["states"], out.cov["transitions"] = st["states"], st["generated"]
    for c in cases:
        if not select(c):
            continue
        out.count()
        out.cov["traces_validated_against_impl"] += 1
        if nontrivial(c):
            out.nontrivial(c["name"])
            out.sample({"case": c["name"], "lr": c["lr"]["kind"], "glr": c["glr"]["kind"], "reference": c["flags"]})
        facts = {"glr-children-exceed-parents-only-by-trailing-layout"} if c["flags"].get("trailingLayoutExcessOnly") else set()
        if c["flags"].get("emptyReduceCycle"):
            facts.add("lr-table-has-a-cycle-of-empty-reductions")
        for cl in c["clauses"]:
            if clause_ok(cl, c):
                out.fail(cl, c["name"], replay_obj(c), origin=c["origin"], facts=facts)
    if extra:
        extra(out)
    out.assumptions = assumptions
    return out.finish(extra_cov={"rule": rule})


LATTICE = "the token lattice is computed by the harness from the real recognizers (trusted); terminals are single characters without lexical overlap"


def c04(replay_case=None):
    return run(
        "C04",
        # (grammars with lexically overlapping terminals are in the corpus for C08 only: LR scanning picks one token there, C07's subject)
        select=lambda c: c["built"] and c["consume"] and not c.get("overlap"),
        clause_ok=lambda cl, c: cl.startswith("C04:"),
        nontrivial=lambda c: c["flags"]["sentence"] or (c["flags"]["exact"] and c["flags"]["lvp"] >= 1),
        rule="cases = Parser(build_tree=True) under (tables, prefer_shifts, prefer_shifts_over_empty) in {LALR 00, LALR 11, LALR 01, SLR 00} whenever it constructs, "
             "x all inputs <= n tokens + layout/multi-line renderings, with the GLR outcome on the same input; "
             "non-trivial = sentence, or exact (deterministic unresolved) table with a viable prefix of >= 1 token",
        assumptions=[LATTICE, "determinism of a table is read from the real cells by TLC; the grammar family has no priorities or associativities"],
        replay_case=replay_case,
    )


def _glr_positions(out):
    """C08 also reads the forest-position clause of the GLR stage (every alternative of every recorded forest)."""
    r = stage_glr.get(tier(), seed())
    out.cov["states"] += r["stats"]["states"]
    out.cov["transitions"] += r["stats"]["generated"]
    from .props_glr import replay_obj as glr_replay

    for c in r["cases"]:
        if c["kind"] != "forest":
            continue
        out.count()
        if c["flags"]["nullable"] and len(c["input"]) >= 2:
            out.nontrivial("glr:" + c["name"])
        for cl in c["clauses"]:
            if cl.startswith("C08:"):
                out.fail(cl, c["name"], glr_replay(c), origin=c["origin"])


def c08(replay_case=None):
    if replay_case is not None and replay_case.get("kind") == "glr-case":
        from . import props_glr

        return props_glr.run("C08", select=lambda c: True, clause_ok=lambda cl, c: cl.startswith("C08:"), nontrivial=lambda c: True,
                             rule="replay", assumptions=[], replay_case=replay_case)
    if replay_case is None:
        stage_glr.ensure(tier(), seed())     # built before the LR stage is loaded (memory, see stage.ensure)
    return run(
        "C08",
        select=lambda c: c["lr"]["kind"] == "tree" or c["glr"]["kind"] == "forest",
        clause_ok=lambda cl, c: cl.startswith("C08:"),
        nontrivial=lambda c: len(c["input"]) >= 2,
        rule="cases = every tree built by Parser(build_tree=True) and up to 3 trees (first, middle, last) of every GLR forest of the LR corpus, plus every "
             "alternative of every forest of the GLR corpus (forest-positions clause); non-trivial = input of >= 2 characters; grammars include empty "
             "productions at the beginning, middle and end of rules and all layout renderings",
        assumptions=[LATTICE, "ws-based layout here; LAYOUT-rule based layout is exercised by C14"],
        replay_case=replay_case,
        extra=None if replay_case is not None else _glr_positions,
    )


def c10(replay_case=None):
    return run(
        "C10",
        # (grammars with lexically overlapping terminals: only the location of the LR parser's DisambiguationError is judged)
        select=lambda c: c["consume"] and ((not c["flags"]["sentence"] and not c.get("overlap")) or c["lr"]["kind"] == "disamb"),
        clause_ok=lambda cl, c: cl.startswith("C10:") and (not c.get("overlap") or cl == "C10:lr:disambiguation-error-not-located-at-an-ambiguous-token"),
        nontrivial=lambda c: c["flags"]["lvp"] >= 1 or len(c["input"]) == 0,
        rule="cases = every non-sentence of the LR corpus (all inputs <= n tokens incl. the empty string, inputs ending in layout, multi-line inputs, junk "
             "characters), GLR always, LR position clauses on exact tables, exception class on resolved tables; non-trivial = viable prefix of >= 1 token or empty input",
        assumptions=[LATTICE, "error position = lattice node after the longest viable prefix (Earley, TLA+); STOP is ignored in symbols_expected"],
        replay_case=replay_case,
    )
