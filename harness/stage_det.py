"""C16: grammars built in fresh interpreters under several PYTHONHASHSEED values, judged by DetCheck.tla."""
import json
import os
import random
import subprocess
from concurrent.futures import ThreadPoolExecutor

from . import gen, stage, tlcrun
from .common import PY, VERIF, MachineryFailure, log, scratch, Timer

PARAMS = {"quick": dict(ngram=150, seeds=[0, 1, 2, 3, 17, 12345]), "thorough": dict(ngram=4000, seeds=[0, 1, 2, 3, 5, 17, 99, 12345, 424242, 7777777])}

# many terminals of equal priority and length (ties in the action order), R/R and S/R conflicts (order of alternatives)
SPECIAL_TEXT = [
    ("many-terminals", 'S: A | B | C;\nA: t1 t2 t3 | t3 t2 t1;\nB: t1 t3 | t2 t1 | x y z;\nC: t2 | t3 | t1 | y | z | x;\nterminals\n' +
     "".join('%s: "%s";\n' % (n, v) for n, v in [("t1", "q"), ("t2", "w"), ("t3", "e"), ("x", "r"), ("y", "t"), ("z", "u")]), ["q w e", "e w q", "r t u"]),
    ("rr-conflicts", 'Stmt: Call | Decl | Expr;\nCall: name;\nDecl: name;\nExpr: name | Expr "+" Expr;\nterminals\nname: /[a-z]+/;\n', ["foo", "a + b + c", "a + b"]),
    ("regex-ties", 'S: A+;\nA: k1 | k2 | k3 | k4 | k5;\nterminals\nk1: /a/;\nk2: /[ab]/;\nk3: /[abc]/;\nk4: /./;\nk5: /a|b/;\n', ["a", "a b", "c a"]),
]
IMPORT_CASES = [
    ("file:rr-conflicts", "g.pg", {"g.pg": 'Stmt: Call | Decl | Expr;\nCall: name;\nDecl: name;\nExpr: name | Expr "+" Expr;\nterminals\nname: /[a-z]+/;\n'},
     ["foo", "a + b + c", "a + b"]),
    ("same-named-terminals", "root.pg", {
        "root.pg": 'import "l.pg";\nimport "r.pg";\nS: Item l.End | Item r.End | Item l.SEP | Item r.SEP;\nItem: "x";\n',
        "l.pg": 'End: SEP "l";\nterminals\nSEP: ";";\n',
        "r.pg": 'End: SEP "r";\nterminals\nSEP: ",";\n'}, ["x ; l", "x , r", "x ;"]),
    ("diamond", "root.pg", {
        "root.pg": 'import "b.pg";\nimport "c.pg";\nS: b.B | c.C;\n',
        "b.pg": 'import "d.pg";\nB: "b" d.D;\n',
        "c.pg": 'import "d.pg";\nC: "c" d.D;\n',
        "d.pg": 'D: T | D T;\nterminals\nT: "t";\n'}, ["b t t", "c t"]),
]


def _batch(tier, seed):
    p = PARAMS[tier]
    items = []
    fam = gen.WITNESSES + gen.family(3, 3, limit=p["ngram"] // 2, rng_seed=1616) + \
        gen.family(4, 3, nts=("S", "A", "B"), terms=gen.PLAIN_TERMS, limit=p["ngram"] // 2, rng_seed=1617)
    rng = random.Random(1618)
    rng2 = random.Random(10000019 * (seed + 1))
    for _ in range(p["ngram"] // 5):
        g = gen.random_grammar(rng2, nprod=(4, 8))
        if g:
            fam.append(g)
    for i, g in enumerate(fam):
        inputs = ["".join(w) for w in gen.directed_inputs(g, rng, n_all=2, maxlen=5, n_sent=4, n_mut=1)][:8]
        items.append({"name": "%s [%s]" % (gen.gname(g), "LALR" if i % 3 else "SLR"), "gtext": gen.gtext(g), "tables": "LALR" if i % 3 else "SLR", "inputs": inputs,
                      "origin": "det" if i < len(fam) - p["ngram"] // 5 else "rand"})
    # priorities on alternatives: a reduction can win one lookahead by priority (R/R) and stay in conflict on another (S/R); what happens on
    # one lookahead of an item must not depend on the order its lookahead SET is walked in (round-5 seeded change C16-g)
    rng3 = random.Random(1619)
    k = 0
    for g in fam[: len(fam) - p["ngram"] // 5]:
        if len(g["prods"]) < 4 or k >= p["ngram"] // 3:
            continue
        k += 1
        by, order = {}, []
        for lhs, rhs in g["prods"]:
            by.setdefault(lhs, []).append((" ".join(rhs) if rhs else "EMPTY") + rng3.choice(["", "", " {20}", " {5}", " {15}"]))
            if lhs not in order:
                order.append(lhs)
        text = "".join("%s: %s;\n" % (lhs, " | ".join(by[lhs])) for lhs in order) + "terminals\n" + gen.gtext({"prods": [], "terms": g["terms"]}).split("terminals\n")[1]
        inputs = ["".join(w) for w in gen.directed_inputs(g, rng3, n_all=2, maxlen=5, n_sent=4, n_mut=1)][:8]
        items.append({"name": "%s [priorities]" % text.split("terminals")[0].replace("\n", " ").strip(), "gtext": text, "inputs": inputs, "origin": "det"})
    items.append({"name": "priority-on-one-lookahead", "origin": "det", "inputs": ["a q w", "a z", "a q"],
                  "gtext": 'S: B "z" | B "q" "w" | A "z" | C;\nA: "a" {20};\nB: "a";\nC: "a" "q";\n'})
    items.append({"name": "priority-on-one-lookahead-2", "origin": "det", "inputs": ["x y", "x z", "x y y"],
                  "gtext": 'S: P "y" | Q "y" | Q "z" | R "y";\nP: "x" {15};\nQ: "x";\nR: "x" "y" {5};\n'})
    for name, text, inputs in SPECIAL_TEXT:
        items.append({"name": name, "gtext": text, "inputs": inputs, "origin": "det"})
    for name, root, files, inputs in IMPORT_CASES:
        items.append({"name": "import:" + name, "files": files, "root": root, "inputs": inputs, "origin": "det"})
    return items


def build(tier, seed):
    t = Timer()
    p = PARAMS[tier]
    items = _batch(tier, seed)
    bf = os.path.join(scratch(), "detbatch.json")
    with open(bf, "w") as f:
        json.dump(items, f)

    def run(s):
        env = dict(os.environ, PYTHONHASHSEED=str(s), VERIF_REPO=os.environ.get("VERIF_REPO", "/repo"))
        r = subprocess.run([PY, os.path.join(VERIF, "harness", "det_worker.py"), bf], env=env, stdout=subprocess.PIPE, stderr=subprocess.PIPE, text=True, timeout=1800)
        if r.returncode != 0:
            raise MachineryFailure("det_worker failed under PYTHONHASHSEED=%s: %s" % (s, r.stderr[-600:]))
        return json.loads(r.stdout)

    with ThreadPoolExecutor(max_workers=min(8, len(p["seeds"]))) as ex:
        per_seed = list(ex.map(run, p["seeds"]))
    log("determinism: %d grammars x %d hash seeds in %.1fs" % (len(items), len(p["seeds"]), t.s()))
    cases = []
    for it in items:
        obs = {}
        for s, res in zip(p["seeds"], per_seed):
            o = res[it["name"]]
            if "t1" not in o:
                o = {"err": o["err"], "t1": {"sha": "", "shaorder": "", "sr": [], "rr": []}, "t2": {"sha": "", "shaorder": "", "sr": [], "rr": []}, "forests": [], "forests2": []}
            obs["s%d" % s] = o
        cases.append({"name": it["name"], "origin": it["origin"], "obs": obs})
    shards = tlcrun.write_shards(cases, scratch() + "/det", max_bytes=3_000_000, min_shards=4)
    rs = tlcrun.run_shards("DetCheck", "DetCheck.cfg", shards, procs=4, workers=4)
    v = {x[1]: x for r in rs for x in r.verdicts}
    if len(v) != len(cases):
        raise MachineryFailure("DetCheck: %d cases, %d verdicts" % (len(cases), len(v)))
    out = [{"name": c["name"], "origin": c["origin"], "clauses": sorted(v[i][2]), "nconf": len(next(iter(c["obs"].values()))["t1"]["sr"]) + len(next(iter(c["obs"].values()))["t1"]["rr"]),
            "ambiguous_inputs": sum(1 for f in next(iter(c["obs"].values()))["forests"] if f[1] > 1), "err": next(iter(c["obs"].values()))["err"]} for i, c in enumerate(cases)]
    return {"cases": out, "stats": {"states": sum(r.distinct for r in rs), "generated": sum(r.generated for r in rs), "seeds": p["seeds"]}}


def get(tier, seed):
    return stage.cached("det-" + tier, {"tier": tier, "seed": seed, "params": PARAMS[tier]}, lambda: build(tier, seed))
