"""Outcome bookkeeping shared by all checks: violations, known findings, evidence, exit code.

Verdict policy (DESIGN 5): a VIOLATION line is printed only for a failing clause that TLC reported
for a real-code observation and that no entry of known_findings.jsonl covers.  Known findings are
read-only at run time.  Machinery trouble is exit 2, never a VIOLATION.
"""
import hashlib
import json
import os
import sys

from .common import EVIDENCE, EXIT_OK, EXIT_VIOLATION, REPLAYS, VERIF, Timer, seed, tier, write_json

KNOWN_FILE = os.path.join(VERIF, "known_findings.jsonl")
KNOWN_DIR = os.path.join(VERIF, "known")


def load_known(prop):
    out = []
    if not os.path.exists(KNOWN_FILE):
        return out
    with open(KNOWN_FILE) as f:
        for line in f:
            line = line.strip()
            if not line or line.startswith("#"):
                continue
            e = json.loads(line)
            if e.get("property") == prop and e.get("status") == "known":
                w = e.get("witness_file")
                e["_witnesses"] = set()
                if w:
                    # known/<name>.txt plus per-tier lists known/<name>-<tier>.txt
                    import glob

                    base = os.path.join(VERIF, w)
                    for p in [base] + glob.glob(base[:-4] + "-*.txt"):
                        if os.path.exists(p):
                            with open(p) as wf:
                                e["_witnesses"] |= {x.rstrip("\n") for x in wf if x.strip()}
                out.append(e)
    return out


def witness_key(name, clause):
    return "%s ## %s" % (clause, name)


class Outcome:
    def __init__(self, prop, level="model_checking"):
        self.prop = prop
        self.level = level
        self.timer = Timer()
        self.known = load_known(prop)
        self.violations = []  # (clause, case-name, replay path)
        self.known_det_hits = {}  # maintenance only (tools/regen_known_generic.sh): witness keys of the deterministic corpus per known finding
        self.known_hits = {}  # finding id -> list of case names
        self.cov = {
            "evaluations": 0,
            "distinct_nontrivial": 0,
            "states": 0,
            "transitions": 0,
            "traces_validated_against_impl": 0,
            "samples": [],
            "exhaustive": False,
        }
        self.assumptions = []
        self.notes = []
        self.drift = []
        self._seen_nontrivial = set()
        # replay mode (./check <ID> --replay <file>): no evidence is written; with a filter only the recorded (clause, case) counts
        self.replay = os.environ.get("VERIF_REPLAY") == "1"
        f = os.environ.get("VERIF_REPLAY_FILTER")
        self.replay_filter = tuple(json.loads(f)) if f else None

    # ------------------------------------------------------------- counting
    def add_tlc(self, results):
        for r in results if isinstance(results, (list, tuple)) else [results]:
            self.cov["states"] += r.distinct
            self.cov["transitions"] += r.generated

    def count(self, n=1):
        self.cov["evaluations"] += n

    def nontrivial(self, key):
        if key not in self._seen_nontrivial:
            self._seen_nontrivial.add(key)
            self.cov["distinct_nontrivial"] = len(self._seen_nontrivial)

    def sample(self, s, limit=6):
        if len(self.cov["samples"]) < limit:
            self.cov["samples"].append(s)

    # ------------------------------------------------------------- verdict handling
    def _match_known(self, clause, name, origin, facts):
        for e in self.known:
            m = e.get("match", {})
            if clause not in m.get("clauses", []):
                continue
            if witness_key(name, clause) in e["_witnesses"]:
                return e
            sig = m.get("signature")
            # quick tier: cases of the deterministic corpus are matched by exact witness lists only (a new case with the finding's signature is
            # reported); thorough tier: hundreds of thousands of deterministic cases, matched by list OR by the TLA+-computed signature
            if sig is not None and (origin != "det" or m.get("signature_everywhere") or tier() == "thorough"):
                if all(f in facts for f in sig.get("all_of", [])) and not any(f in facts for f in sig.get("none_of", [])) \
                        and (not sig.get("any_of") or any(f in facts for f in sig["any_of"])):
                    return e
        return None

    def fail(self, clause, name, replay_obj, origin="det", facts=()):
        """A clause of the property failed on a real-code observation (as decided by TLC)."""
        if self.replay_filter is not None and (clause, name) != self.replay_filter:
            return False
        e = self._match_known(clause, name, origin, set(facts))
        if e is not None:
            self.known_hits.setdefault(e["id"], []).append("%s ## %s" % (clause, name))
            if origin == "det":
                self.known_det_hits.setdefault(e["id"], []).append(witness_key(name, clause))
            return False
        h = hashlib.sha256((clause + "|" + name).encode()).hexdigest()[:16]
        path = os.path.join(REPLAYS, self.prop, h + ".json")
        replay_obj = dict(replay_obj)
        replay_obj["failing_clause"] = clause
        replay_obj["property"] = self.prop
        replay_obj["case_name"] = name
        replay_obj["tier"] = tier()
        replay_obj["seed"] = seed()
        if not self.replay:
            write_json(path, replay_obj)
        self.violations.append((clause, name, path))
        return True

    # ------------------------------------------------------------- finishing
    def finish(self, extra_cov=None, trusted=None):
        cov = dict(self.cov)
        if extra_cov:
            cov.update(extra_cov)
        if not cov["samples"]:
            cov["samples"] = ["(no case recorded)"]
        known_lines = []
        for e in self.known:
            hits = self.known_hits.get(e["id"], [])
            if hits:
                line = "KNOWN-FINDING: property=%s %s [%s] (%d case(s) this run, e.g. %s)" % (
                    self.prop, e["what"], e["id"], len(hits), hits[0][:160])
                known_lines.append(line)
                print(line)
        for d in self.drift[:10]:
            print("MODEL-DRIFT: property=%s %s" % (self.prop, d))
        seen = set()
        for clause, name, path in self.violations:
            if len(seen) < 25:
                print("VIOLATION property=%s replay=%s   # %s on %s" % (self.prop, path, clause, name[:200]))
            seen.add(path)
        if len(self.violations) > 25:
            print("... %d more violations (all replay files written)" % (len(self.violations) - 25))
        if self.violations and not self.replay:
            os.makedirs(os.path.join(REPLAYS, self.prop), exist_ok=True)
            with open(os.path.join(REPLAYS, self.prop, "unlisted.txt"), "w") as f:
                for clause, name, _ in self.violations:
                    f.write(witness_key(name, clause) + "\n")
        if os.environ.get("VERIF_DUMP_KNOWN"):
            # maintenance: never set by a registered command; the lists are reviewed and committed by hand
            for kid, keys in self.known_det_hits.items():
                with open(os.environ["VERIF_DUMP_KNOWN"] + kid + ".txt", "w") as f:
                    f.write("".join(x + "\n" for x in sorted(set(keys))))
        cov["known_finding_lines"] = known_lines
        cov["model_drift"] = self.drift[:20]
        cov["violating_clauses"] = sorted({c for c, _, _ in self.violations})
        ev = {
            "property_id": self.prop,
            "tier": tier(),
            "seed": seed(),
            "level": self.level,
            "coverage": cov,
            "assumptions": self.assumptions,
            "wall_s": self.timer.s(),
            "violations": len(self.violations),
        }
        if trusted:
            ev["coverage"]["trusted_base"] = trusted
        if not self.replay and os.path.realpath(os.environ.get("VERIF_REPO", "/repo")) == "/repo":
            # (a maintenance run against a scratch worktree -- a seeded change -- says nothing about /repo and leaves the evidence alone)
            write_json(os.path.join(EVIDENCE, self.prop + ".json"), ev)
        status = "FAIL" if self.violations else "ok"
        print("%s %s tier=%s seed=%d evaluations=%d nontrivial=%d states=%d traces=%d known=%d violations=%d wall=%.1fs" % (
            self.prop, status, tier(), seed(), cov["evaluations"], cov["distinct_nontrivial"], cov["states"],
            cov["traces_validated_against_impl"], sum(len(v) for v in self.known_hits.values()), len(self.violations), self.timer.s()))
        sys.stdout.flush()
        return EXIT_VIOLATION if self.violations else EXIT_OK
