"""C12: the table cache protocol.  TLC explores Cache.tla exhaustively and dumps its labelled state graph; every transition is
replayed on a real grammar directory (spec -> code); the replies and directory projections come back as traces that TLC validates
against the machine and judges against the reference Transparent (CacheTrace.tla).  Plus the save/load round trip (Persist)."""
import json
import os
import re
import shutil
import tempfile

from . import pool, stage, tlcrun
from .common import MachineryFailure, SPEC, log, scratch, Timer

PARAMS = {"quick": dict(max_steps=3, all_paths=False), "thorough": dict(max_steps=4, all_paths=True)}

# (Opt "a" | "a" "b": a shift / EMPTY-reduction conflict, so that prefer_shifts and prefer_shifts_over_empty give different tables)
ROOT = 'import "imp.pg";\nS: A "x" | "y" T | E | Opt "a" | "a" "b";\nOpt: "q" | EMPTY;\nT: A "z" | C;\nA: "d";\nC: "d" "e";\nE: E "+" E | E "-" E | imp.N%s;\n'
IMP = 'import "leaf.pg";\nN: "n" | leaf.M%s;\n'
# (an edit of leaf.pg changes only a state four tokens deep, i.e. the END of the serialised table: old and new table share a long prefix)
LEAF = 'M: "m" "m2" "m3" K;\nK: "k"%s;\n'
OPTS = {
    "lr": ("lr", {}),
    "glr": ("glr", {}),
    "slr": ("lr", {"tables": "SLR"}),
    "cli": ("lr", {"prefer_shifts": False, "prefer_shifts_over_empty": False}),  # what pglr compile writes (only ever a writer)
    "clips": ("lr", {"prefer_shifts": True, "prefer_shifts_over_empty": False}),                                    # what pglr --prefer-shifts compile writes (only ever a writer)
}


def root_text(v):
    return ROOT % "".join(' | "r%d"' % i for i in range(1, v + 1))


def imp_text(v):
    return IMP % "".join(' | "i%d"' % i for i in range(1, v + 1))


def leaf_text(v):
    return LEAF % "".join(' | "l%d"' % i for i in range(1, v + 1))


TEXT = {"root": root_text, "imp": imp_text, "leaf": leaf_text}


def graph(max_steps, module="Cache", controls=("CacheTransparent.cfg",)):
    """Run TLC on <module>.tla, dump the labelled state graph, return (init, nodes{id: obs}, edges{id: [(label, arg, target)]}, stats).
    `controls`: configurations of the same module that MUST end in an invariant violation (the reference / the pre-repair machine bite)."""
    d = tempfile.mkdtemp(prefix="cachegraph-", dir=scratch())
    cfg = os.path.join(d, module + ".cfg")
    with open(os.path.join(SPEC, module + ".cfg")) as f:
        txt = re.sub(r"MaxSteps = \d+", "MaxSteps = %d" % max_steps, f.read())
    with open(cfg, "w") as f:
        f.write(txt)
    r = tlcrun.run_tlc(module, cfg, workers=4, extra=["-dump", "dot,actionlabels", os.path.join(d, "g")])
    # design-level controls: e.g. the reference Transparent must be violated by the machine (D8), as a control that the reference bites
    neg = [tlcrun.run_tlc(module, c, workers=2, allow_violation=True) for c in controls]
    dot = open(os.path.join(d, "g.dot")).read()
    nodes, edges = {}, {}
    for m in re.finditer(r'^(-?\d+) \[label="((?:[^"\\]|\\.)*)"', dot, re.M):
        lbl = m.group(2).replace('\\"', '"')
        mo = re.search(r'obs = "([^"]*)"', lbl)
        nodes[m.group(1)] = {"obs": mo.group(1), "n": int(re.search(r"\bn = (\d+)", lbl).group(1))}
    for m in re.finditer(r'^(-?\d+) -> (-?\d+) \[label="((?:[^"\\]|\\.)*)"', dot, re.M):
        lab = m.group(3).replace('\\"', '"')
        mm = re.match(r'(\w+)(?:\("(\w+)"\))?', lab)
        edges.setdefault(m.group(1), []).append((mm.group(1), mm.group(2) or "", m.group(2)))
    init = [k for k, v in nodes.items() if v["n"] == 0]
    if len(init) != 1:
        raise tlcrun.MachineryFailure("%s graph: expected one initial state, got %d" % (module, len(init)))
    return init[0], nodes, edges, {"states": r.distinct, "generated": r.generated, "transparent_violated_in_machine": neg[0].violated,
                                   "controls_violated": [x.violated for x in neg]}


def paths_from(init, nodes, edges, all_paths):
    if all_paths:
        out = []

        def dfs(u, path):
            if not edges.get(u):
                out.append(path)
                return
            for lab, arg, v in edges[u]:
                dfs(v, path + [(lab, arg)])
        dfs(init, [])
        return out
    # every transition once: shortest path to its source + the transition
    short = {init: []}
    todo = [init]
    while todo:
        nxt = []
        for u in todo:
            for lab, arg, v in edges.get(u, []):
                if v not in short:
                    short[v] = short[u] + [(lab, arg)]
                    nxt.append(v)
        todo = nxt
    out = []
    for u, es in edges.items():
        for lab, arg, _v in es:
            out.append(short[u] + [(lab, arg)])
    return out


class Crash(Exception):
    pass


class _CrashingFile:
    """a text file that accepts `budget` more characters and then fails (the process 'dies' in the middle of a write)"""

    def __init__(self, f, budget):
        self.f, self.budget = f, budget

    def write(self, data):
        if len(data) > self.budget:
            self.f.write(data[:self.budget])
            self.f.flush()
            self.budget = 0
            raise Crash()
        self.budget -= len(data)
        return self.f.write(data)

    def __enter__(self):
        return self

    def __exit__(self, *exc):
        self.f.close()
        return False

    def __getattr__(self, name):
        return getattr(self.f, name)


def _crashing_open(budget):
    def _open(file, mode="r", *a, **kw):
        f = open(file, mode, *a, **kw)
        return _CrashingFile(f, budget) if any(c in mode for c in "wa+x") else f
    return _open


_fresh_cache = {}


def fresh_sig(real, o, vers):
    """serialisation of the table a parser gets when there is no cache at all (clean directory); vers = (root, imp, leaf) versions"""
    key = (o,) + tuple(vers)
    if key not in _fresh_cache:
        from parglare.tables.persist import table_to_serializable

        c = tempfile.mkdtemp(prefix="fresh-", dir=scratch())
        try:
            for fn, v in zip(("root", "imp", "leaf"), vers):
                with open("%s/%s.pg" % (c, fn), "w") as f:
                    f.write(TEXT[fn](v))
            kind, kw = OPTS[o]
            with real.quiet():
                g = real.Grammar.from_file(c + "/root.pg")
                try:
                    p = (real.GLRParser if kind == "glr" else real.Parser)(g, **{k: (real.TABLES[v] if k == "tables" else v) for k, v in kw.items()})
                    sig = json.dumps(table_to_serializable(p.table), sort_keys=True)
                except (real.parglare.exceptions.SRConflicts, real.parglare.exceptions.RRConflicts):
                    # the unresolved 'cli' / 'clips' tables do not pass an LR parser's conflict check; serialise them directly
                    from parglare.tables import create_table

                    sig = json.dumps(table_to_serializable(create_table(g, prefer_shifts=kw.get("prefer_shifts", False),
                                                                        prefer_shifts_over_empty=kw.get("prefer_shifts_over_empty", False))), sort_keys=True)
            _fresh_cache[key] = sig
        finally:
            shutil.rmtree(c, ignore_errors=True)
    return _fresh_cache[key]


def replay(job):
    """Replay one path on a real directory.  Returns the trace [{act, arg, reply, pst, writer}]."""
    from . import real
    import parglare.tables as T
    import parglare.tables.persist as P
    from parglare.tables.persist import table_to_serializable

    path = job["path"]
    d = tempfile.mkdtemp(prefix="cache-", dir=scratch())
    ver = {"root": 0, "imp": 0, "leaf": 0}

    def vers():
        return (ver["root"], ver["imp"], ver["leaf"])

    def older():
        import itertools

        return itertools.product(range(ver["root"] + 1), range(ver["imp"] + 1), range(ver["leaf"] + 1))
    clock = 2
    trace = []
    try:
        for fn, txt in (("root.pg", root_text(0)), ("imp.pg", imp_text(0)), ("leaf.pg", leaf_text(0))):
            with open(os.path.join(d, fn), "w") as f:
                f.write(txt)
            os.utime(os.path.join(d, fn), (1, 1))
        pgc = os.path.join(d, "root.pgc")
        for step, (act, arg) in enumerate(path):
            reply = act
            if act in ("DoConstruct", "DoCrash"):
                orig = T.save_table
                crash = act == "DoCrash"

                def save(file_name, table, crash=crash, clock=clock, step=step):
                    if crash:
                        # the REAL save_table runs and dies after k bytes have reached the file (whatever way it opens and writes it: round-5
                        # seeded change C12-i rewrote an existing file in place, so that a crash left new[:k] + old[k:])
                        n = len(json.dumps(table_to_serializable(table), sort_keys=True))
                        P.open = _crashing_open([n // 2, n - 1, max(1, n // 7)][step % 3])
                        try:
                            orig(file_name, table)
                        finally:
                            del P.open
                            os.utime(file_name, (clock, clock))
                        raise MachineryFailure("save_table wrote the whole table although the file was to fail after k bytes")
                    orig(file_name, table)
                    os.utime(file_name, (clock, clock))
                T.save_table = save
                try:
                    kind, kw = OPTS[arg]
                    with real.guard(20), real.quiet():
                        g = real.Grammar.from_file(os.path.join(d, "root.pg"))
                        p = (real.GLRParser if kind == "glr" else real.Parser)(g, **{k: (real.TABLES[v] if k == "tables" else v) for k, v in kw.items()})
                    sig = json.dumps(table_to_serializable(p.table), sort_keys=True)
                    if sig == fresh_sig(real, arg, vers()):
                        reply = "table-fresh"
                    elif any(sig == fresh_sig(real, o, vers()) for o in OPTS if o != arg):
                        reply = "table-other-options"
                    elif any(sig == fresh_sig(real, arg, v) for v in older()):
                        reply = "table-stale"
                    else:
                        reply = "table-unknown"
                except Crash:
                    reply = "crash"
                except (real.parglare.exceptions.SRConflicts, real.parglare.exceptions.RRConflicts):
                    reply = "error-conflicts"
                except Exception as e:  # noqa: BLE001
                    reply = "error-" + type(e).__name__
                finally:
                    T.save_table = orig
            elif act == "DoCompile":
                from parglare import cli

                with real.quiet():
                    cli.compile_get_grammar_table(os.path.join(d, "root.pg"), False, False, arg == "clips", False)
                os.utime(pgc, (clock, clock))
                reply = "compile"
            elif act == "DoEdit":
                ver[arg] += 1
                with open(os.path.join(d, arg + ".pg"), "w") as f:
                    f.write(TEXT[arg](ver[arg]))
                os.utime(os.path.join(d, arg + ".pg"), (clock, clock))
                reply = "edit"
            elif act == "DoTouch":
                os.utime(os.path.join(d, arg + ".pg"), (clock, clock))
                reply = "touch"
            # projection of the directory
            pst, writer = "absent", "-"
            if os.path.exists(pgc):
                content = open(pgc).read()
                try:
                    json.loads(content)
                    pst = "complete"
                    writer = "?"
                    for o in OPTS:
                        for v in older():
                            if content == fresh_sig(real, o, v):
                                writer = o
                except ValueError:
                    pst, writer = "prefix", "?"
            trace.append({"act": act, "arg": arg, "reply": reply, "pst": pst, "writer": writer})
            clock += 1
    finally:
        shutil.rmtree(d, ignore_errors=True)
    return [{"name": " ; ".join("%s(%s)" % (a, b) if b else a for a, b in path), "trace": trace, "origin": "det"}]


# ------------------------------------------------------------------ the compiled error hints (.pgec), HintCache.tla
H_ROOT = 'import "imp.pg";\nS: "a" imp.N "c" | "b" imp.N "d"%s;\n'
H_IMP = 'N: "n"%s;\n'
H_KINDS = ("lr", "glr")
H_PROBES = ("a n d", "b n c", "a n n", "b d", "a n c")


def h_root_text(v):
    return H_ROOT % "".join(' | "r%d" "r%d"' % (i, i) for i in range(1, v + 1))


def h_imp_text(v):
    return H_IMP % "".join(' | "i%d"' % i for i in range(1, v + 1))


def h_hints_text(v):
    return "a n d\n:::\nafter a-n comes c (examples v%d)\n=====\nb n c\n:::\nafter b-n comes d (examples v%d)\n" % (v, v)


H_TEXT = {"root": h_root_text, "imp": h_imp_text}
_fresh_hints = {}


def _canon_hints(h):
    return json.dumps(sorted([list(k), v] for k, v in (h or {}).items()))


def fresh_hints(real, kind, vers, hver):
    """the hints a parser of this kind carries when the directory holds no cache file at all; vers = (root, imp) versions"""
    key = (kind,) + tuple(vers) + (hver,)
    if key not in _fresh_hints:
        c = tempfile.mkdtemp(prefix="freshh-", dir=scratch())
        try:
            for fn, v in zip(("root", "imp"), vers):
                with open("%s/%s.pg" % (c, fn), "w") as f:
                    f.write(H_TEXT[fn](v))
            with open(c + "/root.pge", "w") as f:
                f.write(h_hints_text(hver))
            with real.quiet():
                g = real.Grammar.from_file(c + "/root.pg")
                p = (real.GLRParser if kind == "glr" else real.Parser)(g)
            _fresh_hints[key] = _canon_hints(p.error_hints)
        finally:
            shutil.rmtree(c, ignore_errors=True)
    return _fresh_hints[key]


def hint_replay(job):
    """Replay one path of HintCache.tla on a real directory.  Returns the trace [{act, arg, reply, pst, writer}] and, for every construction,
    what the parser says about the probe inputs (hint texts), so that a report shows the user-visible difference."""
    from . import real
    import itertools
    import parglare.parser as P

    path = job["path"]
    d = tempfile.mkdtemp(prefix="hcache-", dir=scratch())
    ver = {"root": 0, "imp": 0}
    hver = 0

    def vers():
        return (ver["root"], ver["imp"])

    def older():
        return itertools.product(range(ver["root"] + 1), range(ver["imp"] + 1), range(hver + 1))
    clock = 2
    trace = []
    try:
        for fn, txt in (("root.pg", h_root_text(0)), ("imp.pg", h_imp_text(0)), ("root.pge", h_hints_text(0))):
            with open(os.path.join(d, fn), "w") as f:
                f.write(txt)
            os.utime(os.path.join(d, fn), (1, 1))
        pgec, pgc = os.path.join(d, "root.pgec"), os.path.join(d, "root.pgc")
        for step, (act, arg) in enumerate(path):
            reply, probes = act, []
            if act in ("DoConstruct", "DoCrash"):
                crash = act == "DoCrash"

                class J:      # parser.py's view of the json module: the dump of the compiled hints can die half way
                    load = staticmethod(json.load)

                    @staticmethod
                    def dump(obj, f, crash=crash, step=step):
                        data = json.dumps(obj)
                        if crash:
                            f.write(data[:[len(data) // 2, len(data) - 1, max(1, len(data) // 7)][step % 3]])
                            f.flush()
                            raise Crash()
                        f.write(data)
                orig = P.json
                P.json = J
                try:
                    with real.guard(20), real.quiet():
                        g = real.Grammar.from_file(os.path.join(d, "root.pg"))
                        p = (real.GLRParser if arg == "glr" else real.Parser)(g)
                    sig = _canon_hints(p.error_hints)
                    other = [k for k in H_KINDS if k != arg]
                    if sig == fresh_hints(real, arg, vers(), hver):
                        reply = "hints-fresh"
                    elif any(sig == fresh_hints(real, k, vers(), hver) for k in other):
                        reply = "hints-other-kind"
                    elif any(sig == fresh_hints(real, k, v[:2], v[2]) for k in H_KINDS for v in older()):
                        reply = "hints-stale"
                    else:
                        reply = "hints-unknown"
                    for w in H_PROBES:
                        try:
                            with real.guard(10), real.quiet():
                                p.parse(w)
                            probes.append("ok")
                        except real.parglare.SyntaxError as e:
                            probes.append(e.hint or "-")
                except Crash:
                    reply = "crash"
                except ValueError:      # json.JSONDecodeError: the constructor tripped over an undecodable .pgec
                    reply = "error-undecodable"
                except Exception as e:  # noqa: BLE001
                    reply = "error-" + type(e).__name__
                finally:
                    P.json = orig
                for fn in (pgec, pgc):      # a file written in this step carries the machine's clock
                    if os.path.exists(fn) and os.path.getmtime(fn) > 1e6:
                        os.utime(fn, (clock, clock))
            elif act == "DoEdit":
                ver[arg] += 1
                with open(os.path.join(d, arg + ".pg"), "w") as f:
                    f.write(H_TEXT[arg](ver[arg]))
                os.utime(os.path.join(d, arg + ".pg"), (clock, clock))
                reply = "edit"
            elif act == "DoTouch":
                os.utime(os.path.join(d, arg + ".pg"), (clock, clock))
                reply = "touch"
            elif act == "DoEditHints":
                hver += 1
                with open(os.path.join(d, "root.pge"), "w") as f:
                    f.write(h_hints_text(hver))
                os.utime(os.path.join(d, "root.pge"), (clock, clock))
                reply = "edithints"
            pst, writer = "absent", "-"
            if os.path.exists(pgec):
                content = open(pgec).read()
                try:
                    import ast

                    sig = _canon_hints({ast.literal_eval(k): v for k, v in json.loads(content).items()})
                    pst, writer = "complete", "?"
                    for k in H_KINDS:
                        for v in older():
                            if sig == fresh_hints(real, k, v[:2], v[2]):
                                writer = k
                except ValueError:
                    pst, writer = "prefix", "?"
            trace.append({"act": act, "arg": arg, "reply": reply, "pst": pst, "writer": writer, "probes": probes})
            clock += 1
    finally:
        shutil.rmtree(d, ignore_errors=True)
    return [{"name": " ; ".join("%s(%s)" % (a, b) if b else a for a, b in path), "trace": trace, "origin": "det"}]


def _check_hints_distinct(max_steps):
    """the replay directory must give pairwise different hint tables for every (kind, versions), or staleness / the writer cannot be observed"""
    from . import real
    import itertools

    sigs = {}
    for k in H_KINDS:
        for v in itertools.product(range(max_steps + 1), repeat=3):
            if sum(v) <= max_steps:
                sigs[(k,) + v] = fresh_hints(real, k, v[:2], v[2])
    if len(set(sigs.values())) != len(sigs):
        raise tlcrun.MachineryFailure("hint cache replay directory does not separate: %s" %
                                      [(a, b) for a in sigs for b in sigs if a < b and sigs[a] == sigs[b]][:5])


def roundtrip(job):
    """Persist: save/load round trip of one grammar's table (the 'all grammars' half of C12)."""
    from . import gen, real
    from parglare.tables.persist import table_from_serializable, table_to_serializable

    text = gen.gtext(job["g"])
    out = []
    for kind, kw in (("glr", {}), ("lr", {}), ("lr", {"tables": "SLR"}), ("glr", {"prefer_shifts": True})):
        p, err = real.build(kind, text, **kw)
        if p is None:
            continue
        ser = table_to_serializable(p.table)
        s1 = json.dumps(ser, sort_keys=True)
        t2 = table_from_serializable(json.loads(s1), p.grammar)
        s2 = json.dumps(table_to_serializable(t2), sort_keys=True)

        def proj(t):
            return {"acts": [[[k.name, [real.action_json(a) | {"st": a.state.state_id if a.state is not None else -1, "pr": a.prod.prod_id if a.prod is not None else -1}
                                        for a in v]] for k, v in s.actions.items()] for s in t.states],
                    "gotos": [[[k.name, v.state_id] for k, v in s.gotos.items()] for s in t.states],
                    "finish": [[bool(x) for x in s.finish_flags] for s in t.states],
                    "sr": sorted([c.state.state_id, c.term.name, [p_.prod_id for p_ in c.productions]] for c in t.sr_conflicts),
                    "rr": sorted([c.state.state_id, c.term.name, [p_.prod_id for p_ in c.productions]] for c in t.rr_conflicts),
                    "dyn": [sorted(x.name for x in s.dynamic) for s in t.states]}
        out.append({"name": "%s [%s %s]" % (gen.gname(job["g"]), kind, kw), "origin": job["origin"], "before": proj(p.table), "after": proj(t2),
                    "bytes_equal": s1 == s2, "nbytes": len(s1)})
    return out


def _check_distinct():
    """the replay grammar must give pairwise different tables under the option sets, or writers cannot be told apart"""
    from . import real

    real.init_worker()
    sigs = {o: fresh_sig(real, o, (0, 0, 0)) for o in OPTS}
    if len(set(sigs.values())) != len(sigs):
        raise tlcrun.MachineryFailure("cache replay grammar does not separate the option sets: %s" %
                                      [(a, b) for a in sigs for b in sigs if a < b and sigs[a] == sigs[b]])


def build(tier, seed):
    from . import gen
    import random

    t = Timer()
    p = PARAMS[tier]
    _check_distinct()
    init, nodes, edges, gstats = graph(p["max_steps"])
    paths = paths_from(init, nodes, edges, p["all_paths"])
    # directed histories beyond the quick depth: a cache exists, a grammar file is edited, the rebuild dies while writing, the next construction
    # must not see what the dead one left (round-5 seeded change C12-i: a rewrite in place left the complete old table under a new mtime)
    directed = [[("DoConstruct", o), ("DoEdit", f), ("DoCrash", o2), ("DoConstruct", o3)] + tail
                for o in ("lr", "glr") for f in ("root", "imp", "leaf") for o2 in ("lr", "glr") for o3 in ("lr", "glr")
                for tail in ([], [("DoConstruct", o3)])]
    paths += [d for d in directed if d not in paths]
    log("cache graph: %d states, %d transitions, %d paths to replay" % (len(nodes), sum(len(v) for v in edges.values()), len(paths)))
    traces = pool.flatten(pool.run_jobs("stage_cache", "replay", [{"path": pth} for pth in paths], chunksize=8))
    log("cache paths replayed on the real code in %.1fs" % t.s())
    shards = tlcrun.write_shards(traces, scratch() + "/cachetrace", max_bytes=2_000_000, min_shards=8)
    rs = tlcrun.run_shards("CacheTrace", "CacheTrace.cfg", shards, procs=4, workers=4)
    v = {x[1]: x for r in rs for x in r.verdicts}
    if len(v) != len(traces):
        raise tlcrun.MachineryFailure("CacheTrace: %d traces, %d verdicts" % (len(traces), len(v)))
    out = []
    for i, tr in enumerate(traces):
        out.append({"name": tr["name"], "origin": "det", "verdict": v[i][2], "at": v[i][3],
                    "nontransparent": sorted([list(x) for x in v[i][4]]), "trace": tr["trace"]})
    # the compiled error hints: the same two directions on HintCache.tla
    _check_hints_distinct(p["max_steps"])
    hinit, hnodes, hedges, hstats = graph(p["max_steps"], "HintCache", ("HintCacheTransparent.cfg", "HintCacheNegImports.cfg", "HintCacheNegPrefix.cfg"))
    hpaths = paths_from(hinit, hnodes, hedges, p["all_paths"])
    hdirected = [[("DoConstruct", o), (e, f), ("DoCrash", o2), ("DoConstruct", o2)]
                 for o in H_KINDS for e, f in (("DoEdit", "root"), ("DoEdit", "imp"), ("DoEditHints", "")) for o2 in H_KINDS]
    hpaths += [d for d in hdirected if d not in hpaths]
    log("hint cache graph: %d states, %d transitions, %d paths to replay" % (len(hnodes), sum(len(x) for x in hedges.values()), len(hpaths)))
    htraces = pool.flatten(pool.run_jobs("stage_cache", "hint_replay", [{"path": pth} for pth in hpaths], chunksize=8))
    shards = tlcrun.write_shards(htraces, scratch() + "/hcachetrace", max_bytes=2_000_000, min_shards=8)
    hrs = tlcrun.run_shards("HintCacheTrace", "HintCacheTrace.cfg", shards, procs=4, workers=4)
    hv = {x[1]: x for r in hrs for x in r.verdicts}
    if len(hv) != len(htraces):
        raise tlcrun.MachineryFailure("HintCacheTrace: %d traces, %d verdicts" % (len(htraces), len(hv)))
    hout = [{"name": tr["name"], "origin": "det", "verdict": hv[i][2], "at": hv[i][3], "nontransparent": sorted([list(x) for x in hv[i][4]]),
             "trace": tr["trace"]} for i, tr in enumerate(htraces)]
    log("hint cache paths replayed and validated in %.1fs" % t.s())
    # round trip over grammars
    fam = gen.WITNESSES + gen.family(3, 3, limit=120 if tier == "quick" else 3000, rng_seed=1212)
    rng = random.Random(8000009 * (seed + 1))
    jobs = [{"g": g, "origin": "det"} for g in fam]
    for _ in range(40 if tier == "quick" else 1500):
        g = gen.random_grammar(rng, nprod=(3, 7))
        if g:
            jobs.append({"g": g, "origin": "rand"})
    rt = pool.flatten(pool.run_jobs("stage_cache", "roundtrip", jobs, chunksize=8))
    shards = tlcrun.write_shards(rt, scratch() + "/persist", max_bytes=2_000_000, min_shards=8)
    rs2 = tlcrun.run_shards("Persist", "Persist.cfg", shards, procs=4, workers=4)
    v2 = {x[1]: x for r in rs2 for x in r.verdicts}
    if len(v2) != len(rt):
        raise tlcrun.MachineryFailure("Persist: %d cases, %d verdicts" % (len(rt), len(v2)))
    rtout = [{"name": c["name"], "origin": c["origin"], "clauses": sorted(v2[i][2]), "nbytes": c["nbytes"]} for i, c in enumerate(rt)]
    stats = {"states": gstats["states"] + hstats["states"] + sum(r.distinct for r in rs + rs2 + hrs),
             "generated": gstats["generated"] + hstats["generated"] + sum(r.generated for r in rs + rs2 + hrs),
             "graph": gstats, "graph_states": len(nodes), "graph_transitions": sum(len(x) for x in edges.values()), "paths": len(paths),
             "hgraph": hstats, "hgraph_states": len(hnodes), "hgraph_transitions": sum(len(x) for x in hedges.values()), "hpaths": len(hpaths)}
    log("cache stage done in %.1fs" % t.s())
    return {"traces": out, "hint_traces": hout, "roundtrip": rtout, "stats": stats}


def get(tier, seed):
    return stage.cached("cache-" + tier, {"tier": tier, "seed": seed, "params": PARAMS[tier]}, lambda: build(tier, seed))
