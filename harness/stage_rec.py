"""C11: error recovery runs (LR and GLR, default and custom strategies), judged by RecoveryCheck.tla (final state) and LRTrace.tla (H-lr events)."""
import random

from . import gen, pool, stage, tlcrun
from .common import log, scratch, Timer

PARAMS = {"quick": dict(nfam=40, nin=26), "thorough": dict(nfam=1500, nin=60)}
REALISTIC = [
    ("expr", 'E: E "+" E {left, 1} | E "*" E {left, 2} | "(" E ")" | n;\nterminals\nn: /\\d+/;\n', ["1 + 2 * 3", "( 1 + 2 ) * 3", "1", "1 + ( 2 * 3 + 4 )"]),
    ("list", 'L: "[" Items? "]";\nItems: Items "," Item | Item;\nItem: id | L;\nterminals\nid: /[a-z]+/;\n', ["[ a , b , c ]", "[ ]", "[ a , [ b , c ] , d ]"]),
    ("stmts", 'P: S+;\nS: id "=" V ";" | "print" V ";" | "{" S* "}";\nV: id | num;\nterminals\nid: /[a-z]+/;\nnum: /\\d+/;\nKEYWORD: /\\w+/;\n',
     ["a = 1 ; print a ;", "{ a = b ; } print 3 ;", "x = y ;"]),
    ("nullable", 'S: A B C "end";\nA: "a" A | EMPTY;\nB: "b" | EMPTY;\nC: C "c" | EMPTY;\n', ["a a b c c end", "end", "b end", "a c end"]),
]
REALISTIC += [
    # reduce/reduce fork: after "q a" GLR has two last-shifted heads in different states, so recovery runs per head and heads can die
    ("fork", "S: X 'a' 'b' T | Y 'a' 'c' T;\nX: 'q';\nY: 'q';\nT: 'd' | T 'd';\n", ["q a b d d", "q a c d", "q a b d d d"]),
    ("fork2", "S: A 'x' B | C 'x' D;\nA: 'k';\nC: 'k';\nB: 'b' B | 'b';\nD: 'd' D | 'd';\n", ["k x b b b", "k x d d", "k x b"]),
]
# LALR lookaheads that are only valid inside brackets: after the junk two GLR heads are recovered at DIFFERENT positions (each finds another
# closing bracket) and the next error follows at once (round-4 seeded change C11-h: the error context was no longer the farthest head)
TWINS = ("twins", "S: A T | B U | '(' T ')' | '[' U ']';\nA: 'a';\nB: 'a';\nT: n;\nU: n;\nterminals\nn: /\\d+/;\n", ["a 1", "( 1 )", "[ 2 ]"])
REALISTIC.append(TWINS)
EXTRA_INPUTS = {"twins": ["a 1 & ] )", "a 1 & ) ]", "a 1 & ] ) ]", "a & 1 ] )", "a 1 ? ) & ]", "( 1 & ] )", "[ 1 & ) ]"]}
JUNK = ["?", "#", "@@", "$ $", "!", "&"]


def corruptions(sentence, rng, alphabet, n):
    toks = sentence.split()
    out = {sentence}
    for _ in range(n * 3):
        m = list(toks)
        op = rng.choice(["ins", "del", "sub", "junk", "junk", "dup", "trunc", "junk2", "junk2"])
        k = rng.randrange(len(m)) if m else 0
        if op == "ins":
            m.insert(k, rng.choice(alphabet))
        elif op == "del" and m:
            del m[k]
        elif op == "sub" and m:
            m[k] = rng.choice(alphabet)
        elif op == "junk":
            m.insert(k, rng.choice(JUNK))
        elif op == "junk2" and len(m) >= 2:
            k2 = rng.randrange(k, len(m))
            m.insert(k2 + 1, rng.choice(JUNK))
            m.insert(k, rng.choice(JUNK))
        elif op == "dup" and m:
            m.insert(k, m[k])
        elif op == "trunc":
            m = m[:k]
        out.add(" ".join(m) if rng.random() < 0.8 else "".join(m))
        if len(out) > n:
            break
    return sorted(out)


def _tlen(h):
    return len(h.token_ahead) if h.token_ahead is not None else -1


def _tpos(h):
    """position of the head's lookahead token (-1: none; the STOP token and injected tokens may have none: the head's position then)"""
    t = h.token_ahead
    if t is None:
        return -1
    return t.position if isinstance(t.position, int) else h.position


class LRRecorder:
    def __init__(self):
        self.ev = []

    def __call__(self, kind, f):
        if not kind.startswith("lr_") or getattr(f["parser"], "in_layout", False):
            return
        if kind == "lr_token":
            h = f["head"]
            self.ev.append({"e": "tok", "sym": h.token_ahead.symbol.name if h.token_ahead is not None else "-", "pos": h.position, "st": -1, "p": -1, "ok": True, "tpos": _tpos(h), "tlen": _tlen(h)})
        elif kind == "lr_shift":
            self.ev.append({"e": "shift", "sym": "", "pos": f["head"].position, "st": f["head"].state.state_id, "p": -1, "ok": True})
        elif kind == "lr_reduce":
            self.ev.append({"e": "reduce", "sym": "", "pos": -1, "st": f["head"].state.state_id, "p": f["production"].prod_id, "ok": True})
        elif kind == "lr_accept":
            self.ev.append({"e": "accept", "sym": "", "pos": -1, "st": -1, "p": -1, "ok": True})
        elif kind == "lr_error":
            self.ev.append({"e": "error", "sym": "", "pos": f["head"].position, "st": -1, "p": -1, "ok": True})
        elif kind == "lr_strategy":
            # not a hook: logged by the harness's own custom strategy when it returns (what it left in the head)
            h = f["head"]
            self.ev.append({"e": "strat", "sym": h.token_ahead.symbol.name if h.token_ahead is not None else "-", "pos": h.position, "st": -1, "p": -1,
                            "ok": bool(f["successful"]), "tpos": _tpos(h), "tlen": _tlen(h)})
        elif kind == "lr_recover":
            h = f["head"]
            self.ev.append({"e": "recover", "sym": h.token_ahead.symbol.name if h.token_ahead is not None else "-", "pos": h.position, "st": -1, "p": -1,
                            "ok": bool(f["successful"]), "tpos": _tpos(h), "tlen": _tlen(h)})


def make_strategy(real, name, counter):
    if name == "default":
        return True
    fn = _make_strategy(real, name, counter)

    def logged(head, error, default):
        ok = fn(head, error, default)
        sink = real._verif.sink
        if sink is not None:
            sink("lr_strategy", {"parser": None, "head": head, "successful": ok})
        return ok
    return logged


def _make_strategy(real, name, counter):
    if name == "skip2":
        def skip2(head, error, default):
            n = len(head.input_str)
            if head.position >= n:
                return False
            head.position = min(n, head.position + 2)
            head.token_ahead = None
            return True
        return skip2
    if name == "skip1p":
        # the strategy of the repository's own test (tests/func/parsing/error_recovery: `context.position += 1; return True`), which leaves the
        # lookahead alone; bounded at the end of the input
        def skip1p(head, error, default):
            if head.position >= len(head.input_str):
                return False
            head.position += 1
            return True
        return skip1p
    if name == "inject":
        from parglare.parser import Token

        def inject(head, error, default):
            counter[0] += 1
            if counter[0] > 2:
                return default(head)
            syms = sorted((s for s in head.state.actions if s.name not in ("STOP", "EMPTY")), key=lambda s: s.name)
            if not syms:
                return default(head)
            # a token that was NOT in the input: a value for the tree, no length in the input (the documented way: explicit length=0)
            head.token_ahead = Token(syms[0], "<missing>", position=head.position, length=0)
            return True
        return inject
    if name == "wrap":
        return lambda head, error, default: default(head)
    raise ValueError(name)


def _shape(n):
    if n.is_term():
        return ["T", n.symbol.name, n.start_position, n.end_position]
    return ["N", n.production.prod_id, [_shape(c) for c in n]]


def _tree(real, n):
    if n.is_term():
        return {"k": "T", "t": n.symbol.name, "s": -1 if n.start_position is None else n.start_position, "e": -1 if n.end_position is None else n.end_position}
    return {"k": "N", "p": n.production.prod_id, "c": [_tree(real, c) for c in n]}


def _run(real, parser, w, glr, rec=None):
    import json

    out = {"kind": "ok", "cls": "", "errors": [], "trees": [], "shape": ""}
    if rec is not None:
        real._verif.sink = rec
    try:
        with real.guard(6), real.quiet():
            r = parser.parse(w)
            if glr:
                try:
                    n = len(r)
                except real.LoopError:
                    n = 1
                ts = [r.get_nonlazy_tree(i) for i in range(min(n, 4))]
            else:
                ts = [r]
            out["trees"] = [_tree(real, t) for t in ts]
            out["shape"] = json.dumps([_shape(t) for t in ts])
    except real.Timeout:
        out["kind"] = "timeout"
    except Exception as e:  # noqa: BLE001
        out["kind"], out["cls"] = "exc", type(e).__name__
    finally:
        real._verif.sink = None
    errs = getattr(parser, "errors", None) or []
    try:
        out["errors"] = [[-1 if e.location.start_position is None else e.location.start_position, -1 if e.location.end_position is None else e.location.end_position] for e in errs]
    except Exception:  # noqa: BLE001
        out["errors"] = [[-2, -2]]
    return out


def worker(job):
    from . import real

    text, name = job["gtext"], job["name"]
    out = []
    counter = [0]
    plain_lr, _ = real.build("lr", text, build_tree=True)
    plain_glr, _ = real.build("glr", text)
    if plain_glr is None:
        return []
    grammar = plain_glr.grammar
    prods = real.prods_json(grammar)
    configs = [("glr", "default"), ("glr", "skip2"), ("glr", "inject"), ("glr", "wrap"), ("glr", "skip1p")]
    if plain_lr is not None:
        configs += [("lr", "default"), ("lr", "skip2"), ("lr", "inject"), ("lr", "wrap"), ("lr", "skip1p")]
    parsers = {}
    for kind, strat in configs:
        kw = {"build_tree": True} if kind == "lr" else {}
        p, _ = real.build(kind, text, error_recovery=make_strategy(real, strat, counter), **kw)
        if p is not None:
            parsers[(kind, strat)] = p
    ws = "\n\r\t "
    for w in job["inputs"]:
        match = real.match_table(grammar, w)
        base = {"gtext": text, "inputstr": w, "input": [ord(c) for c in w], "n": len(w), "ws": [ord(c) for c in ws], "match": match, "prods": prods,
                "origin": job["origin"], "consume": True}
        plain = {"lr": _run(real, plain_lr, w, False) if plain_lr else None, "glr": _run(real, plain_glr, w, True)}
        for (kind, strat), p in parsers.items():
            counter[0] = 0
            rec = LRRecorder() if kind == "lr" else None
            r = _run(real, p, w, kind == "glr", rec)
            c = dict(base, name="%s [%s,%s] @ %r" % (name, kind, strat, w), parser=kind, strategy=strat, rec=r,
                     plain={"kind": plain[kind]["kind"], "shape": plain[kind]["shape"]}, lrtrace=rec.ev if rec else [], tbl=real.table_json(p) if kind == "lr" else [])
            out.append(c)
    return out


def _jobs(tier, seed):
    p = PARAMS[tier]
    rng = random.Random(1111)
    rng2 = random.Random(18000041 * (seed + 1))
    jobs = []
    for name, text, sents in REALISTIC:
        alphabet = sorted({t for s in sents for t in s.split()})
        inputs = []
        for s in sents:
            inputs += corruptions(s, rng, alphabet, p["nin"] // len(sents) + 2)
        extra = []
        for _ in range(p["nin"] // 3):
            extra.append("".join(rng2.choice(alphabet + [" ", " ", "?", "("]) for _ in range(rng2.randint(0, 8))))
        jobs.append({"name": name, "gtext": text, "inputs": sorted(set(inputs) | set(EXTRA_INPUTS.get(name, []))), "origin": "det"})
        jobs.append({"name": name, "gtext": text, "inputs": sorted(set(extra)), "origin": "rand"})
    fam = gen.family(3, 3, nts=("S", "A"), terms=gen.PLAIN_TERMS, limit=p["nfam"], rng_seed=1112)
    for i, g in enumerate(fam):
        if gen.cyclic(g["prods"], [t[0] for t in g["terms"]]):
            continue
        r = rng if i % 4 else rng2
        sents = [" ".join(s) for s in gen.sentences(g, maxlen=5, limit=6) if s][:4]
        if not sents:
            continue
        inputs = []
        for s in sents:
            inputs += corruptions(s, r, [t[2] for t in g["terms"]], 4)
        jobs.append({"name": gen.gname(g), "gtext": gen.gtext(g), "inputs": sorted(set(inputs))[:14], "origin": "det" if i % 4 else "rand"})
    return jobs


def judge(cases, tag_="rec"):
    paths = tlcrun.write_shards(cases, scratch() + "/" + tag_)
    rs = tlcrun.run_shards("RecoveryCheck", "RecoveryCheck.cfg", paths, procs=4, workers=4)
    rs2 = tlcrun.run_shards("LRTrace", "LRTrace.cfg", paths, procs=4, workers=4, tag="TRACE")
    v = {x[1]: x for r in rs for x in r.verdicts}
    v2 = {x[1]: x for r in rs2 for x in r.verdicts}
    if len(v) != len(cases) or len(v2) != len(cases):
        raise tlcrun.MachineryFailure("RecoveryCheck/LRTrace: %d cases, %d / %d verdicts" % (len(cases), len(v), len(v2)))
    out = []
    for i, c in enumerate(cases):
        out.append({"name": c["name"], "origin": c["origin"], "gtext": c["gtext"], "input": c["inputstr"], "parser": c["parser"], "strategy": c["strategy"],
                    "rec": {"kind": c["rec"]["kind"], "cls": c["rec"]["cls"], "errors": c["rec"]["errors"]}, "plain": c["plain"]["kind"],
                    "clauses": sorted(v[i][2]), "nerr": v[i][3], "trace": v2[i][2], "trace_at": v2[i][3], "nrecover": v2[i][4], "nev": len(c["lrtrace"])})
    return out, {"states": sum(r.distinct for r in rs + rs2), "generated": sum(r.generated for r in rs + rs2)}


def build(tier, seed):
    t = Timer()
    cases = pool.flatten(pool.run_jobs("stage_rec", "worker", _jobs(tier, seed), chunksize=1))
    log("recovery corpus: %d runs in %.1fs" % (len(cases), t.s()))
    out, stats = judge(cases)
    log("recovery corpus judged in %.1fs" % t.s())
    return {"cases": out, "stats": stats}


def get(tier, seed):
    return stage.cached("rec-" + tier, {"tier": tier, "seed": seed, "params": PARAMS[tier]}, lambda: build(tier, seed))
