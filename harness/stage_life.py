"""C15: histories enumerated (exhaustive) or simulated (random, seeded) by TLC from Lifecycle.tla, replayed on real Grammar/parser
objects, validated and judged by LifecycleTrace.tla."""
import os
import re

from . import pool, stage, tlcrun
from .common import SPEC, log, scratch, Timer, seed as _seed
from .stage_act import tagval

PARAMS = {"quick": dict(max_steps=3, sim=250, sim_depth=6), "thorough": dict(max_steps=4, sim=6000, sim_depth=8)}

# ("-" / DASH and "~" / TILDE: one character read as two terminals, so that a GLR frontier holds TWO heads; one of them expects only BANG,
# the other an operand -- scanning "!" for the second raises inside the recognizer RX after the first has found its lookahead, in one of the
# two mirrored forms whatever the order of the heads.  Round-5 seeded change C15-g: heads sorted by lookahead survived the aborted parse.)
GRAMMAR = '''S: E;
E: E "+" E {left, 1} | E "*" E | "n" | BOOM | RX | "for" | ID | E "-" BANG | E DASH E {left, 1} | E "~" E {left, 1} | E TILDE BANG;
terminals
BOOM: "boom";
RX: ;
ID: /[a-z]+/;
BANG: "!";
DASH: /-/;
TILDE: /~/;
'''
LAYOUT = '''LAYOUT: LayoutItem | LAYOUT LayoutItem | EMPTY;
LayoutItem: WS | Comment;
terminals
WS: /\\s+/;
Comment: /\\/\\/.*/;
'''
# error examples with hints (docs/handling_errors.md): compiled into <grammar>.pgec by the first parser built from the grammar FILE, loaded by later ones
HINTS = "n +\n:::\nAn operand is expected after an operator.\n=====\nn n\n:::+\nTwo operands in a row.\n"
INPUTS = {"ok": "n + n * n", "bad": "n + * n + n", "act": "n + boom", "rec": "n + !", "recerr": "n ! n", "kw": "forest + for", "empty": "",
          "rec2": "n - !", "rec3": "n ~ !"}


def grammar_text(variant):
    if variant == "layout":
        head, terms = GRAMMAR.split("terminals\n")
        lhead, lterms = LAYOUT.split("terminals\n")
        return head + lhead + "terminals\n" + terms + lterms
    return GRAMMAR


def _boom(_ctx, value):
    raise ValueError("raised inside an action")


def _rx(inp, pos):
    if inp[pos] == "!":
        raise ValueError("raised inside a recognizer")
    return "r" if inp[pos] == "r" else None


ACTIONS = {"BOOM": _boom}


def histories(max_steps, sim, sim_depth, seed):
    """TLC as generator: all histories up to max_steps (model checking) + `sim` random behaviours of depth sim_depth (simulation)."""
    d = os.path.join(scratch(), "life-%d" % os.getpid())
    os.makedirs(d, exist_ok=True)
    cfg = os.path.join(d, "Lifecycle.cfg")
    with open(os.path.join(SPEC, "Lifecycle.cfg")) as f:
        txt = re.sub(r"MaxSteps = \d+", "MaxSteps = %d" % max_steps, f.read())
    with open(cfg, "w") as f:
        f.write(txt)
    r = tlcrun.run_tlc("Lifecycle", cfg, workers=4, tag="HIST")
    hs = [[list(ev) for ev in v[1]] for v in r.verdicts]
    stats = {"states": r.distinct, "generated": r.generated, "exhaustive_histories": len(hs)}
    if sim:
        cfg2 = os.path.join(d, "LifecycleSim.cfg")
        with open(os.path.join(SPEC, "LifecycleSim.cfg")) as f:
            txt = re.sub(r"MaxSteps = \d+", "MaxSteps = %d" % sim_depth, f.read())
        with open(cfg2, "w") as f:
            f.write(txt)
        r2 = tlcrun.run_tlc("Lifecycle", cfg2, workers=1, tag="HIST", extra=["-simulate", "num=%d" % sim, "-depth", str(sim_depth + 1), "-seed", str(1000 + seed)])
        sims = [[list(ev) for ev in v[1]] for v in r2.verdicts]
        stats["simulated_histories"] = len(sims)
        hs_sim = sims
    else:
        hs_sim = []
    return hs, hs_sim, stats


_fresh = {}


def _build(real, g, kind):
    P, G = real.Parser, real.GLRParser
    if kind == "lr":
        return P(g, actions=ACTIONS)
    if kind == "glr":
        return G(g, actions=ACTIONS)
    if kind == "slr":
        return P(g, tables=real.TABLES["SLR"], actions=ACTIONS)
    if kind == "lrrec":
        return P(g, error_recovery=True, actions=ACTIONS)
    if kind == "glrrec":
        return G(g, error_recovery=True, actions=ACTIONS)
    if kind == "lrld0":
        return P(g, lexical_disambiguation=False, actions=ACTIONS)
    if kind == "glrld1":
        return G(g, lexical_disambiguation=True, actions=ACTIONS)
    if kind == "conflict":
        return P(g, prefer_shifts=False, prefer_shifts_over_empty=False, actions=ACTIONS)
    if kind == "initerror":
        return P(g, actions=dict(ACTIONS, E=[_boom]))  # a list of actions whose length does not match E's productions: ParserInitError
    raise ValueError(kind)


def _reply(real, parser, x):
    w = INPUTS[x]
    try:
        with real.guard(10), real.quiet():
            r = parser.parse(w)
            if isinstance(parser, real.GLRParser):
                n = len(r)
                out = ["forest", n, [tagval(parser.call_actions(r[i])) for i in range(min(n, 8))]]
            else:
                out = ["ok", tagval(r)]
            errs = getattr(parser, "errors", None)
            out.append([[e.location.start_position, e.location.end_position] for e in errs] if errs else [])
            return out
    except real.Timeout:
        return ["timeout"]
    except Exception as e:  # noqa: BLE001
        loc = getattr(e, "location", None)
        pos = loc.start_position if loc is not None and loc.start_position is not None else -1
        exp = sorted(s.name for s in getattr(e, "symbols_expected", None) or [])
        return ["exc", type(e).__name__, pos, exp, str(getattr(e, "hint", None))]


def _new_grammar(real, variant):
    if variant == "file":
        # a grammar FILE with an error-examples file next to it, in a directory of its own (so a fresh grammar never sees compiled hints or tables)
        import tempfile

        d = tempfile.mkdtemp(prefix="life-", dir=scratch())
        with open(os.path.join(d, "g.pg"), "w") as f:
            f.write(GRAMMAR)
        with open(os.path.join(d, "g.pge"), "w") as f:
            f.write(HINTS)
        with real.quiet():
            return real.Grammar.from_file(os.path.join(d, "g.pg"), recognizers={"RX": _rx})
    with real.quiet():
        return real.Grammar.from_string(grammar_text(variant), recognizers={"RX": _rx})


def fresh_reply(real, variant, kind, x):
    key = (variant, kind, x)
    if key not in _fresh:
        g = _new_grammar(real, variant)
        with real.quiet():
            p = _build(real, g, kind)
        _fresh[key] = _reply(real, p, x)
    return _fresh[key]


def replay(job):
    from . import real

    variant, hist = job["variant"], job["hist"]
    g = _new_grammar(real, variant)
    start = g.productions[1].symbol.name
    parsers = {}
    trace = []
    for op, a, b in hist:
        ev = {"op": op, "a": a, "b": b, "ok": True, "reply": ["none"], "fresh": ["none"]}
        if op in ("build", "buildfail"):
            try:
                with real.guard(20), real.quiet():
                    p = _build(real, g, a)
                if op == "build":
                    parsers[a] = p
            except Exception as e:  # noqa: BLE001
                ev["ok"] = False
                ev["err"] = type(e).__name__
        else:
            ev["reply"] = _reply(real, parsers[a], b)
            ev["fresh"] = fresh_reply(real, variant, a, b)
        rhs = [s.name for s in g.productions[0].rhs]
        ev["aug"] = "main" if rhs == [start, "STOP"] else "layout" if rhs == ["LAYOUT", "STOP"] else "dirty"
        ev["first"] = hasattr(g, "_first_sets")
        trace.append(ev)
    name = "[%s] " % variant + " ; ".join("%s(%s%s)" % (op, a, "," + b if b else "") for op, a, b in hist)
    return [{"name": name, "variant": variant, "origin": job["origin"], "trace": trace}]


def build(tier, seed):
    t = Timer()
    p = PARAMS[tier]
    hs, sims, gstats = histories(p["max_steps"], p["sim"], p["sim_depth"], seed)
    jobs = [{"variant": v, "hist": h, "origin": "det"} for h in hs for v in ("plain", "layout")]
    jobs += [{"variant": ("plain", "layout")[i % 2], "hist": h, "origin": "rand"} for i, h in enumerate(sims)]
    # grammar from a FILE with error hints: histories whose builds all share the table options (the table cache next to the file ignores the
    # options it was written under: known finding C12-KF1, not C15's subject), i.e. only {lr, lrrec} or only {glr, glrrec}, no failing build
    def one_table(h):
        kinds = {a for op, a, b in h if op in ("build", "buildfail")}
        return not any(op == "buildfail" for op, a, b in h) and (kinds <= {"lr", "lrrec"} or kinds <= {"glr", "glrrec"})
    jobs += [{"variant": "file", "hist": h, "origin": "det"} for h in hs if one_table(h)]
    jobs += [{"variant": "file", "hist": h, "origin": "rand"} for h in sims if one_table(h)]
    log("lifecycle: %d exhaustive + %d simulated histories from TLC" % (len(hs), len(sims)))
    traces = pool.flatten(pool.run_jobs("stage_life", "replay", jobs, chunksize=8))
    log("lifecycle histories replayed in %.1fs" % t.s())
    shards = tlcrun.write_shards(traces, scratch() + "/lifetrace", max_bytes=2_000_000, min_shards=8)
    rs = tlcrun.run_shards("LifecycleTrace", "LifecycleTrace.cfg", shards, procs=4, workers=4)
    v = {x[1]: x for r in rs for x in r.verdicts}
    if len(v) != len(traces):
        raise tlcrun.MachineryFailure("LifecycleTrace: %d traces, %d verdicts" % (len(traces), len(v)))
    out = []
    for i, tr in enumerate(traces):
        out.append({"name": tr["name"], "origin": tr["origin"], "bad": sorted([list(x) for x in v[i][2]]), "steps": len(tr["trace"]),
                    "replies": [[e["op"], e["a"], e["b"], e["reply"][:2], e.get("err", "")] for e in tr["trace"]]})
    stats = {"states": gstats["states"] + sum(r.distinct for r in rs), "generated": gstats["generated"] + sum(r.generated for r in rs), "gen": gstats}
    log("lifecycle stage done in %.1fs" % t.s())
    return {"traces": out, "stats": stats}


def get(tier, seed):
    return stage.cached("life-" + tier, {"tier": tier, "seed": seed, "params": PARAMS[tier]}, lambda: build(tier, seed))
