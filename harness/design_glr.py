"""Design-level run of spec/GLR.tla (chart = LR automaton + GSS closure) on a bounded grammar family; used by C01 and C02."""
import itertools
import json
import os

from . import gen, stage, tlcrun
from .common import scratch

PARAMS = {"quick": dict(ngram=400, n=4), "thorough": dict(ngram=6000, n=5)}


def build(tier):
    p = PARAMS[tier]
    gs = gen.WITNESSES[:6] + gen.family(3, 3, limit=p["ngram"], rng_seed=5151)
    cases = []
    for g in gs:
        tn = [t[0] for t in g["terms"]]
        prods = [{"lhs": "S'", "rhs": ["S", "STOP"]}] + [{"lhs": l, "rhs": list(r)} for l, r in g["prods"]]
        cases.append({"prods": prods, "terms": tn, "inputs": [list(w) for n in range(0, p["n"] + 1) for w in itertools.product(tn, repeat=n)]})
    path = os.path.join(scratch(), "glrdesign.json")
    with open(path, "w") as f:
        json.dump(cases, f)
    r = tlcrun.run_tlc("GLR", "GLR.cfg", env={"CASES_FILE": path}, workers=8, heap="4g", allow_violation=True, heavy=True, timeout=3000)
    return {"states": r.distinct, "generated": r.generated, "violated": r.violated, "grammars": len(cases), "inputs": sum(len(c["inputs"]) for c in cases)}


def get(tier):
    return stage.cached("glrdesign-" + tier, {"params": PARAMS[tier]}, lambda: build(tier))
