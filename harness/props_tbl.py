"""C05 decided on the table stage (LRWalk.tla)."""
from . import stage_tbl
from .checklib import Outcome
from .common import seed, tier


def replay_obj(c):
    return {"kind": "table-case", "name": c["name"], "gtext": c["gtext"], "tables": c["tables"], "start": c["start"],
            "observed": {"built": c["built"], "err": c["err"], "real_states": c["nreal"], "canonical_lr1_states": c["nlr1"]},
            "tlc": {"clauses": c["clauses"]}}


def _construction(out):
    """the construction as a machine: LRBuild.tla model-checked (all handling orders) + real constructions validated by LRBuildTrace.tla"""
    from . import stage_build
    from .common import MachineryFailure

    r = stage_build.get(tier(), seed())
    d = r["design"]
    if d["violated"]:
        raise MachineryFailure("design-level property %s of spec/LRBuild.tla is violated: the specified construction needs repair, no verdict on the code" % d["violated"])
    if d["neg_violated"] != "Bounded":
        raise MachineryFailure("negative control of LRBuild (construction before fix a3802e2 on the D4 witness grammars) did not violate Bounded: the design-level check is vacuous")
    out.cov["states"] += r["stats"]["states"] + d["states"]
    out.cov["transitions"] += r["stats"]["generated"] + d["generated"]
    out.cov["design_level_LRBuild"] = d
    out.cov["constructions_validated"] = {"traces": len(r["traces"]), "events": sum(t["events"] for t in r["traces"]), "merge_decisions": sum(t["merges"] for t in r["traces"]),
                                          "not_recorded": len(r["unrecorded"])}
    for t in r["traces"]:
        out.count()
        out.cov["traces_validated_against_impl"] += 1
        if t["merges"] >= 3:
            out.nontrivial("build:" + t["name"])
        if t["verdict"] != "ok":
            out.fail("C05:" + t["verdict"], "%s @event %d" % (t["name"], t["at"]), {"kind": "construction-trace", "name": t["name"], "gtext": t["gtext"], "verdict": t["verdict"], "event": t["at"]},
                     origin=t["origin"])
    for u in r["unrecorded"]:
        if "StateBudgetExceeded" in u["err"] or "Timeout" in u["err"]:
            out.fail("C05:construction-diverges", u["name"], {"kind": "construction-trace", "name": u["name"], "gtext": u["gtext"], "err": u["err"]}, origin=u["origin"])
        else:
            out.drift.append("construction not recorded: %s on %s" % (u["err"], u["name"]))


def c05(replay_case=None):
    out = Outcome("C05")
    if replay_case is not None:
        cases, st = stage_tbl.judge_replay(replay_case), {"states": 0, "generated": 0, "unparsed": []}
    else:
        r = stage_tbl.get(tier(), seed())
        cases, st = r["cases"], r["stats"]
    out.cov["states"], out.cov["transitions"] = st["states"], st["generated"]
    for c in cases:
        out.count()
        out.cov["traces_validated_against_impl"] += 1  # one real table walked in lock-step with the reference automaton
        if c["nlr1"] >= 8:
            out.nontrivial(c["name"])
            out.sample({"case": c["name"], "canonical_lr1_states": c["nlr1"], "real_states": c["nreal"], "conflict_reports": c["nconf"]})
        for cl in c["clauses"]:
            if cl.startswith("C05:"):
                out.fail(cl, c["name"], replay_obj(c), origin=c["origin"])
            elif cl.startswith("X:"):
                out.drift.append("%s on %s" % (cl, c["name"]))
    if replay_case is None:
        _construction(out)
    out.assumptions = ["every nonterminal of a generated grammar is productive and reachable (computed by the generator)",
                       "tables are built with no resolution strategy (GLRParser defaults / create_table with both prefer flags off)",
                       "divergence is decided by the state budget hook PARGLARE_VERIF_MAX_STATES (wall-clock alarm only as backstop)"]
    return out.finish(extra_cov={
        "rule": "cases = real LALR and SLR tables of enumerated/sampled/random productive grammars (main start and LAYOUT start), each walked by TLC in lock-step "
                "with the canonical LR(1) collection; non-trivial = canonical collection has >= 8 states; distinct by (grammar, tables, start); "
                "construction: spec/LRBuild.tla (queue, merge / merge-other / split decisions, propagation rounds) model-checked on small grammars for every order of handling a state's "
                "symbols (Bounded, Terminates under weak fairness, Faithful; the pre-fix algorithm must violate Bounded), and every recorded real LALR construction (hooks tbl_pop, "
                "tbl_goto, tbl_states) validated event by event against it, ending in exactly the recorded kernel lookaheads (LRBuildTrace.tla)",
        "unparsed_grammars": len(st["unparsed"])})
