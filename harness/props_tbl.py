"""C05 decided on the table stage (LRWalk.tla)."""
from . import stage_tbl
from .checklib import Outcome
from .common import seed, tier


def replay_obj(c):
    return {"kind": "table-case", "name": c["name"], "gtext": c["gtext"], "tables": c["tables"], "start": c["start"],
            "observed": {"built": c["built"], "err": c["err"], "real_states": c["nreal"], "canonical_lr1_states": c["nlr1"]},
            "tlc": {"clauses": c["clauses"]}}


def c05(replay_case=None):
    out = Outcome("C05")
    if replay_case is not None:
        cases, st = stage_tbl.judge_replay(replay_case), {"states": 0, "generated": 0, "unparsed": []}
    else:
        r = stage_tbl.get(tier(), seed())
        cases, st = r["cases"], r["stats"]
    out.cov["states"], out.cov["transitions"] = st["states"], st["generated"]
    for c in cases:
        out.count()
        out.cov["traces_validated_against_impl"] += 1  # one real table walked in lock-step with the reference automaton
        if c["nlr1"] >= 8:
            out.nontrivial(c["name"])
            out.sample({"case": c["name"], "canonical_lr1_states": c["nlr1"], "real_states": c["nreal"], "conflict_reports": c["nconf"]})
        for cl in c["clauses"]:
            if cl.startswith("C05:"):
                out.fail(cl, c["name"], replay_obj(c), origin=c["origin"])
            elif cl.startswith("X:"):
                out.drift.append("%s on %s" % (cl, c["name"]))
    out.assumptions = ["every nonterminal of a generated grammar is productive and reachable (computed by the generator)",
                       "tables are built with no resolution strategy (GLRParser defaults / create_table with both prefer flags off)",
                       "divergence is decided by the state budget hook PARGLARE_VERIF_MAX_STATES (wall-clock alarm only as backstop)"]
    return out.finish(extra_cov={
        "rule": "cases = real LALR and SLR tables of enumerated/sampled/random productive grammars (main start and LAYOUT start), each walked by TLC in lock-step "
                "with the canonical LR(1) collection; non-trivial = canonical collection has >= 8 states; distinct by (grammar, tables, start)",
        "unparsed_grammars": len(st["unparsed"])})
