"""C18 decided on the filter stage (FilterCheck.tla protocol clauses + Prec.tla precedence-filter clause)."""
from . import stage_filter
from .checklib import Outcome
from .common import MachineryFailure, seed, tier


def c18(replay_case=None):
    out = Outcome("C18")
    if replay_case is not None:
        raise MachineryFailure("C18 replay: re-run harness/stage_filter.worker on the recorded operator table (replay file holds grammar text, policy and input)")
    r = stage_filter.get(tier(), seed())
    st = r["stats"]
    out.cov["states"], out.cov["transitions"] = st["states"], st["generated"]
    for c in r["cases"]:
        out.count()
        out.cov["traces_validated_against_impl"] += 1
        if c["flags"]["decisions"] >= 1:
            out.nontrivial(c["name"])
            out.sample({"case": c["name"], "filter_calls": c["ncalls"], "marked_decisions_in_result": c["flags"]["decisions"], "outcome": c["kind"]})
        for cl in c["clauses"]:
            out.fail(cl, c["name"], {"kind": "filter-case", **{k: c[k] for k in ("name", "gtext", "parser", "policy", "rejectp", "input", "kind", "plainkind")},
                                     "tlc": {"clauses": c["clauses"], "flags": c["flags"]}}, origin=c["origin"])
    for c in r["prec"]:
        if not c["built"]:
            out.fail("C18:precedence-filter-parser-does-not-construct", c["name"], {"kind": "prec-filter-case", "gtext": c["gtext"], "err": c["build_err"]}, origin=c["origin"])
        for e in c["exprs"]:
            out.count()
            name = "%s @ %s" % (c["name"], " ".join(e["toks"]))
            if e["ntrees"] >= 2:
                out.nontrivial(name)
            for cl in e["clauses"]:
                if cl.startswith("C18:"):
                    out.fail(cl, name, {"kind": "prec-filter-case", "gtext": c["gtext"], "ops": c["ops"], "expression": e["toks"]}, origin=c["origin"])
    out.assumptions = ["the filter is the harness's own callable (recording + policy): accept all, reject every reduction of one production, or an encoding of the operator table",
                       "a reduction/shift in a returned tree is matched with a filter call by production and child spans / terminal and start position",
                       "LR: when the filter rejects every action of a cell the pinned code raises IndexError (observation outside the statement, DESIGN 6); such runs carry no tree and only the protocol clauses apply"]
    return out.finish(extra_cov={
        "rule": "cases = operator grammars (1..3 operators, static marks on/off) x subsets of productions/terminals marked dynamic x {LR, GLR} x "
                "{accept all, reject all reductions of one marked production} x expressions <= 9 tokens, each with its recorded filter call log and result trees; "
                "plus precedence-encoding filters judged by Prec.tla; non-trivial = at least one marked decision occurs in a returned tree"})
