"""C19: string terminal texts realised inline and declared, with/without KEYWORD and ignore_case, judged by StrCheck.tla."""
import itertools
import random
import re

from . import pool, stage, tlcrun
from .common import log, scratch, Timer

ALPHA = ["a", "b", "Z", "1", "_", ".", "|", "+", "*", "(", ")", "[", "]", "\\", "'", '"', " ", "\n", "\t", "-", "/", "#", "{", "?", "$", "^"]
WORDS = ["for", "A", "S", "X", "EMPTY", "STOP", "KEYWORD", "a.b", "c++", "a-", "-a", "\\n", "\\\\", "it's", 'say "x"', "x y", "a|b", "(a)", "[ab]", "a*", "1.5", "end.", "//", "/*", "a_1", "b_opt"]
# ("alt": alternatives of which an EARLIER one matches a proper prefix of the text -- the text is still fully matched by the regex; finding D50:
# the keyword test compared what regex.match() returns, i.e. the first alternative that matches, with the whole text)
KW = {"none": None, "word": r"\w+", "ext": r"[a-z+\-.|*()\[\]\\ ]+", "alt": r"a|fo|[a-zA-Z]\w+|1"}
PARAMS = {"quick": dict(n2=260, n3=140), "thorough": dict(n2=10**9, n3=6000)}


def esc(t):
    return t.replace("\\", "\\\\").replace('"', '\\"').replace("\n", "\\n").replace("\t", "\\t")


def _texts(tier, seed):
    p = PARAMS[tier]
    rng = random.Random(1919)
    rng2 = random.Random(12000017 * (seed + 1))
    out = [(t, "det") for t in ALPHA] + [(t, "det") for t in WORDS]
    two = ["".join(x) for x in itertools.product(ALPHA, repeat=2)]
    out += [(t, "det") for t in (two if len(two) <= p["n2"] else rng.sample(two, p["n2"]))]
    for i in range(p["n3"]):
        r = rng if i % 3 else rng2
        out.append(("".join(r.choice(ALPHA) for _ in range(r.randint(3, 4))), "det" if i % 3 else "rand"))
    return out


def probes(t, rng):
    alts = {t, "a" + t, t + "a", "_" + t + "_", " " + t + " ", t + t, t.upper(), t.lower(), t.swapcase(), t[:-1], t[1:], t + "1", "Z" + t,
            "." + t + ".", t + "!!", "(" + t + ")", t + "\n", "-" + t + "-", t[::-1]}
    for _ in range(4):
        alts.add("".join(rng.choice(list(t) + ["a", " ", "_"]) for _ in range(rng.randint(1, len(t) + 2))))
    return sorted(a for a in alts if 0 < len(a) <= 10)


def worker(job):
    from . import real

    t, kw, ic = job["text"], job["kw"], job["ic"]
    rng = random.Random(hash((t, kw, ic)) & 0xFFFFFF)
    ins = probes(t, rng)
    kwre = KW[kw]
    case = {"name": "%r [KEYWORD=%s%s]" % (t, kw, ",ignore_case" if ic else ""), "text": [ord(c) for c in t], "kw": kw, "ic": ic, "origin": job["origin"],
            "iskw": bool(kwre and re.fullmatch(kwre, t, re.I if ic else 0)), "collides": t in ("S", "X", "A", "EMPTY", "STOP", "KEYWORD", "T_", "KEYWORD"),
            "inputs": [{"s": [ord(c) for c in s]} for s in ins]}
    kwdecl = ("KEYWORD: /%s/;\n" % kwre) if kwre else ""
    forms = {
        "inline": 'S: X;\nX: "%s" A;\nA: "!!";\n' % esc(t) + (("terminals\n" + kwdecl) if kwdecl else ""),
        "declared": 'S: X;\nX: T_ A;\nA: "!!";\nterminals\nT_: "%s";\n' % esc(t) + kwdecl,
    }
    if kw == "none":
        # the declared form written in an IMPORTED file (the grammar options, ignore_case among them, hold for every file of the grammar)
        forms["imported"] = ('import "lib.pg";\nS: lib.X;\n', 'X: T_ A;\nA: "!!";\nterminals\nT_: "%s";\n' % esc(t))
    twin = t.swapcase()
    if not ic and twin != t and all(c.isalnum() or c == "_" for c in t) and t not in ("S", "X", "A", "s", "x", "a"):
        # the text next to the text that differs from it in case only: two different terminals of a case-sensitive grammar
        # (round-5 seeded change C19-h: the "match the same string" check compared case-folded texts whatever ignore_case says)
        forms["twin"] = 'S: X;\nX: "%s" A | "%s" A;\nA: "!!";\n' % (esc(t), esc(twin)) + (("terminals\n" + kwdecl) if kwdecl else "")
    for form, text in forms.items():
        rec = {"built": False, "err": "", "match": [[0] * (len(s) + 1) for s in ins], "sentence": False, "iskw": False}
        try:
            with real.guard(10), real.quiet():
                if form == "imported":
                    import os
                    import tempfile

                    d = tempfile.mkdtemp(prefix="str-", dir=scratch())
                    for fn, body in zip(("root.pg", "lib.pg"), text):
                        with open(os.path.join(d, fn), "w") as fh:
                            fh.write(body)
                    g = real.Grammar.from_file(os.path.join(d, "root.pg"), ignore_case=ic)
                else:
                    g = real.Grammar.from_string(text, ignore_case=ic)
                if form == "imported":
                    term = g.terminals["lib.T_"]
                elif form == "declared":
                    term = g.terminals["T_"]
                elif form == "twin":
                    term = g.terminals[t]
                else:
                    cands = [x for n, x in g.terminals.items() if n not in ("EMPTY", "STOP", "KEYWORD", "!!")]
                    if len(cands) != 1:
                        raise ValueError("inline terminal not identifiable: %r" % [c.name for c in cands])
                    term = cands[0]
                rec["built"] = True
                rec["iskw"] = bool(term.keyword)
                for k, s in enumerate(ins):
                    for p in range(len(s) + 1):
                        m = term.recognizer(s, p) if p < len(s) else None
                        rec["match"][k][p] = len(m) if m else 0
                try:
                    real.Parser(g, ws=None).parse(t + "!!")
                    rec["sentence"] = True
                except Exception as e:  # noqa: BLE001
                    rec["sentence_err"] = type(e).__name__
        except Exception as e:  # noqa: BLE001
            rec["err"] = "%s: %s" % (type(e).__name__, str(e)[:100])
        case[form] = rec
    if "imported" not in case:
        case["imported"] = {"built": False, "err": "", "match": [], "sentence": False, "iskw": False}
    case["hasimported"] = "imported" in forms
    if "twin" not in case:
        case["twin"] = {"built": False, "err": "", "match": [], "sentence": False, "iskw": False}
    case["hastwin"] = "twin" in forms
    return [case]


def judge(cases, tag_="str"):
    paths = tlcrun.write_shards(cases, scratch() + "/" + tag_, max_bytes=2_500_000, min_shards=8)
    rs = tlcrun.run_shards("StrCheck", "StrCheck.cfg", paths, procs=4, workers=4)
    v = {x[1]: x for r in rs for x in r.verdicts}
    if len(v) != len(cases):
        raise tlcrun.MachineryFailure("StrCheck: %d cases, %d verdicts" % (len(cases), len(v)))
    out = [{"name": c["name"], "origin": c["origin"], "kw": c["kw"], "ic": c["ic"], "iskw": c["iskw"], "ninputs": len(c["inputs"]),
            "errs": {f: c[f]["err"] for f in ("inline", "declared")}, "clauses": sorted(v[i][2]), "facts": sorted(v[i][3])} for i, c in enumerate(cases)]
    return out, {"states": sum(r.distinct for r in rs), "generated": sum(r.generated for r in rs)}


def build(tier, seed):
    t = Timer()
    jobs = []
    for text, origin in _texts(tier, seed):
        for kw in KW:
            jobs.append({"text": text, "kw": kw, "ic": False, "origin": origin})
        if any(c.isalpha() for c in text):
            jobs.append({"text": text, "kw": "word", "ic": True, "origin": origin})
            jobs.append({"text": text, "kw": "none", "ic": True, "origin": origin})
    cases = pool.flatten(pool.run_jobs("stage_str", "worker", jobs, chunksize=16))
    log("string-terminal corpus: %d cases in %.1fs" % (len(cases), t.s()))
    out, stats = judge(cases)
    log("string-terminal corpus judged in %.1fs" % t.s())
    return {"cases": out, "stats": stats}


def get(tier, seed):
    return stage.cached("str-" + tier, {"tier": tier, "seed": seed, "params": PARAMS[tier]}, lambda: build(tier, seed))
