"""C09 decided on the action stage (ActCheck.tla)."""
from . import stage_act
from .checklib import Outcome
from .common import MachineryFailure, seed, tier


def c09(replay_case=None):
    out = Outcome("C09")
    if replay_case is not None:
        raise MachineryFailure("C09 replay: re-run harness/stage_act.worker on the recorded grammar AST (replay file holds grammar text, action kinds and input)")
    r = stage_act.get(tier(), seed())
    st = r["stats"]
    out.cov["states"], out.cov["transitions"] = st["states"], st["generated"]
    for c in r["cases"]:
        out.count()
        out.cov["traces_validated_against_impl"] += 1
        if c["sugar"] or c["named"]:
            out.nontrivial(c["name"])
            out.sample({"case": c["name"], "routes": c["routes"]})
        for cl in c["clauses"]:
            out.fail(cl, c["name"], {"kind": "action-case", "name": c["name"], "gtext": c["gtext"], "kinds": c["kinds"], "terminal_actions": c["tactions"],
                                     "input": c["input"], "routes": c["routes"], "tlc": {"clauses": c["clauses"]}}, origin=c["origin"])
    out.assumptions = ["user actions are the harness's recording callables returning the term (rule, alternative, sub-results, named matches, span)",
                       "helper rules of the sugar are recognised by the documented naming convention (X_1, X_0, X_opt, X_1_sep, X_0_sep) and given the DOCUMENTED built-in meaning in Actions.tla",
                       "only sentences accepted by the LR parser (default strategies) are judged; the GLR route only when the forest has a single tree",
                       "spans handed to actions are compared per route with that route's own tree (LR and GLR place empty matches on different sides of layout)"]
    return out.finish(extra_cov={
        "rule": "cases = sugared small grammars (repetition, optional, separators, named matches = and ?=, rules written in two pieces) x random action tables "
                "(none / one action / per-alternative list; terminal actions) x sentences from random derivations; three routes vs Actions!Eval; "
                "non-trivial = grammar uses sugar or named matches", "skipped_non_lr_grammars": st["skipped"]})
