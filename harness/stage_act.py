"""C09: recorded results of the three action routes vs Actions!Eval of the derivation tree (ActCheck.tla)."""
import random
import re

from . import gen, pool, stage, sugar, tlcrun
from .common import log, scratch, Timer

PARAMS = {"quick": dict(ngram=260, nsent=10), "thorough": dict(ngram=6000, nsent=24)}


def _jobs(tier, seed):
    p = PARAMS[tier]
    fam = gen.family(3, 3, nts=("S", "A"), terms=gen.PLAIN_TERMS, limit=p["ngram"] // 2, rng_seed=909) + \
        gen.family(4, 2, nts=("S", "A", "B"), terms=gen.PLAIN_TERMS, limit=p["ngram"] // 2, rng_seed=910)
    fam = [g for g in fam if not gen.cyclic(g["prods"], [t[0] for t in g["terms"]])]
    jobs = []
    rng = random.Random(99)
    rng2 = random.Random(4000037 * (seed + 1))
    for i, g in enumerate(fam):
        r = rng if i % 4 else rng2
        rules = sugar.from_plain(g, r, p_mult=0.3, p_name=0.5)
        kinds = {name: r.choice(["none", "single", "list", "list"]) for name, _ in rules}
        tact = [t for t in "abc" if r.random() < 0.4]
        # every third grammar: constant actions returning a FALSY value (0, False, '', []) on a rule other than the start rule and on terminals:
        # a matched element is an element whatever its truth value (round-3 seeded change C09-f: `if e2:` in collect_first_sep)
        tconst = {}
        if i % 3 == 2:
            for name, _ in rules[1:]:
                if r.random() < 0.6:
                    kinds[name] = r.choice(["k0", "kF", "kS", "kL"])
            tconst = {t: r.choice(["k0", "kF", "kS", "kL"]) for t in "abc" if t not in tact and r.random() < 0.4}
        if i % 3 == 0:
            # STATEFUL actions (a shared counter): the routes must call the actions of a tree in the same order -- the order of the LR
            # reductions (finding D48: call_actions went through the children right to left)
            for name, _ in rules:
                if r.random() < 0.5:
                    kinds[name] = "kN"
            tconst = {t: "kN" for t in "abc" if t not in tact and r.random() < 0.4}
        if i % 3 == 1:
            # built-in actions named in the grammar (@pass_inner ...) on rules without named matches (pass_single: no empty alternative)
            # A rule that is the base of a repetition gets no built-in that can return None (pass_none; pass_inner / pass_single over an
            # optional element): the collect actions drop None elements after the first (leniency rule of DESIGN 5, as strip_none_repetitions)
            rep_bases = set()

            def bases(alts_):
                for a_ in alts_:
                    for it_ in a_:
                        if it_.get("kind") == "grp":
                            bases(it_["alts"])
                        elif it_["mult"] in ("+", "*"):
                            rep_bases.add(it_["sym"])
            for _n, alts_ in rules:
                bases(alts_)
            for name, alts in rules[1:]:
                if r.random() < 0.6 and not any(it.get("name") for alt in alts for it in alt):
                    opts = ["pass_none", "pass_nochange", "pass_empty", "pass_inner"] + (["pass_single"] if all(len(a) >= 1 for a in alts) else [])
                    if name in rep_bases:
                        opts = ["pass_nochange", "pass_empty"]
                    kinds[name] = r.choice(opts)
        # a rule written in two pieces with another rule in between (alternative numbering must follow the grammar order)
        # (not for rules with named matches: pieces with and without assignments are an undocumented combination)
        split = r.random() < 0.35 and len(rules) >= 2 and len(rules[0][1]) >= 2 and not any(it.get("name") for alt in rules[0][1] for it in alt)
        jobs.append({"rules": rules, "kinds": kinds, "tact": tact, "tconst": tconst, "split": split, "origin": "det" if i % 4 else "rand", "nsent": p["nsent"], "seed": r.randrange(1 << 30)})
    return jobs


def helper_kind(name):
    if name.endswith("_g"):
        return "none"  # greedy wrapper X_1_g: X_1 (single child passed up)
    if name.endswith("_opt"):
        return "optional"
    if re.search(r"_0(_[A-Za-z]+)?$", name):
        return "zero"
    if re.search(r"_1$", name):
        return "collect"
    if re.search(r"_1_[A-Za-z]+$", name):
        return "collect_sep"
    return None


BUILTIN = ("pass_none", "pass_nochange", "pass_empty", "pass_single", "pass_inner")


def grammar_text(job):
    rules = job["rules"]
    if job.get("split"):
        name, alts = rules[0]
        rules = [(name, alts[:1])] + rules[1:] + [(name, alts[1:])]
    return sugar.text(rules, acts={n: k for n, k in job["kinds"].items() if k in BUILTIN}), rules


def tagval(v):
    if v is None:
        return ["n"]
    if isinstance(v, bool):
        return ["b", v]
    if isinstance(v, int):
        return ["i", v]
    if isinstance(v, str):
        return ["s", v]
    if isinstance(v, list):
        return ["l", [tagval(x) for x in v]]
    if isinstance(v, tuple) and v and v[0] == "c":
        s, e = v[5], v[6]
        if s == e:
            s = e = -1
        return ["c", v[1], v[2], tagval(list(v[3])), [[k, tagval(x)] for k, x in v[4]], -1 if s is None else s, -1 if e is None else e]
    if isinstance(v, tuple) and v and v[0] == "tc":
        return ["tc", v[1], tagval(v[2])]
    if hasattr(v, "_pg_attrs"):
        s, e = v._pg_start_position, v._pg_end_position
        if s == e:
            s = e = -1
        return ["o", type(v).__name__, [[k, tagval(getattr(v, k))] for k in sorted(v._pg_attrs) if hasattr(v, k)], -1 if s is None else s, -1 if e is None else e]
    return ["?", str(type(v).__name__)]


def dump_tree(n):
    if n.is_term():
        return {"k": "T", "t": n.symbol.name, "s": n.start_position, "e": n.end_position, "vs": n.value}
    return {"k": "N", "p": n.production.prod_id, "s": -1 if n.start_position is None else n.start_position,
            "e": -1 if n.end_position is None else n.end_position, "c": [dump_tree(c) for c in n]}


def worker(job):
    from . import real

    text, rules = grammar_text(job)
    rng = random.Random(job["seed"])
    kinds = job["kinds"]

    def mk(sym, i):
        def f(ctx, nodes, **kw):
            return ("c", sym, i, nodes, sorted(kw.items()), ctx.start_position, ctx.end_position)
        return f

    # alternative counts follow the order of the alternatives in the grammar TEXT (all pieces of a rule, in order)
    nalts = {}
    for name, alts in rules:
        nalts[name] = nalts.get(name, 0) + len(alts)
    actions = {}
    for name, k in kinds.items():
        if k == "single":
            actions[name] = mk(name, -1)
        elif k == "list":
            actions[name] = [mk(name, i) for i in range(nalts[name])]
    CONST = {"k0": 0, "kF": False, "kS": "", "kL": []}
    counter = {"n": 0}

    def count_nt(ctx, nodes, **kw):
        counter["n"] += 1
        return counter["n"]

    def count_t(ctx, v):
        counter["n"] += 1
        return counter["n"]
    for name, k in kinds.items():
        if k in CONST:
            actions[name] = (lambda c: (lambda ctx, nodes, **kw: type(c)(c)))(CONST[k])
        elif k == "kN":
            actions[name] = count_nt
    for t in job["tact"]:
        actions[t] = (lambda tt: (lambda ctx, v: ("tc", tt, v)))(t)
    for t, k in job.get("tconst", {}).items():
        actions[t] = count_t if k == "kN" else (lambda c: (lambda ctx, v: type(c)(c)))(CONST[k])
    try:
        with real.guard(10), real.quiet():
            g = real.Grammar.from_string(text)
            used = {k: v for k, v in actions.items() if k in g.terminals or k in g.nonterminals}
            if used and job["seed"] % 2 == 0:
                # the Grammar object has served a parser with ANOTHER (non-empty) action table before: an action for every symbol; the judged
                # table replaces it entirely (round-5 seeded change C09-g: symbols the later table omits kept the earlier table's action)
                decoy = {n: (lambda ctx, x, **kw: ("decoy",)) for n in list(g.nonterminals) + [t for t in g.terminals if t not in ("EMPTY", "STOP")]}
                real.Parser(g, actions=decoy)
            p1 = real.Parser(g, actions=used)
            p2 = real.Parser(g, actions=used, build_tree=True)
            p3 = real.GLRParser(g, actions=used)
            p4 = real.Parser(g, actions=used, build_tree=True, call_actions_during_tree_build=True)
    except Exception as e:  # noqa: BLE001  (conflicts: not an LR grammar -> not a case for C09)
        return [{"skip": "%s" % type(e).__name__}]
    prods = real.prods_json(g)
    # named matches per production, from the generator's AST (k-th alternative of a rule in text order = k-th production of that symbol)
    by_sym = {}
    for name, alts in rules:
        by_sym.setdefault(name, []).extend(alts)
    seen_idx = {}
    assign = []
    has_assign = {name: any(it.get("name") for alt in alts for it in alt) for name, alts in by_sym.items()}
    for pr in g.productions:
        name = pr.symbol.name
        a = []
        if name in by_sym:
            k = seen_idx.get(name, 0)
            seen_idx[name] = k + 1
            alt = by_sym[name][k]
            for idx, it in enumerate(alt):
                if it.get("name"):
                    a.append({"name": it["name"], "op": it["op"], "idx": idx + 1})
        assign.append(sorted(a, key=lambda x: x["name"]))
    akind = {}
    for nt in g.nonterminals:
        if nt in kinds:
            akind[nt] = kinds[nt] if kinds[nt] != "none" else ("obj" if has_assign.get(nt) else "none")
        else:
            akind[nt] = helper_kind(nt) or "none"
    tact = [t for t in job["tact"] if t in g.terminals]
    for t, k in job.get("tconst", {}).items():
        if t in g.terminals:
            akind[t] = k
    out = []
    sents = sugar.sentences(rules, rng, n=job["nsent"])
    for toks in sents:
        w = " ".join(toks)
        try:
            with real.guard(3), real.quiet():
                tree = p2.parse(w)
        except Exception:  # noqa: BLE001   (not accepted by the LR parser: outside C09)
            continue
        case = {"name": "%s actions=%s @ %r" % (text.replace("\n", " "), {k: kinds[k] for k in sorted(kinds)}, w), "gtext": text, "origin": job["origin"],
                "kinds": kinds, "tactions": tact, "input": w, "prods": prods, "akind": akind, "assign": assign, "tact": tact, "tree": dump_tree(tree)}
        for key, fn in (("r1", lambda: p1.parse(w)), ("r2", lambda: p2.call_actions(tree))):
            counter["n"] = 0
            try:
                with real.guard(10), real.quiet():
                    case[key] = {"ok": True, "v": tagval(fn()), "single": True}
            except Exception as e:  # noqa: BLE001
                case[key] = {"ok": False, "v": ["n"], "single": True, "err": type(e).__name__}
        try:
            with real.guard(10), real.quiet():
                case["r4"] = {"ok": True, "tree": dump_tree(p4.parse(w))}
        except Exception as e:  # noqa: BLE001
            case["r4"] = {"ok": False, "tree": case["tree"], "err": type(e).__name__}
        case["gtree"] = case["tree"]
        try:
            with real.guard(5), real.quiet():
                f = p3.parse(w)
                try:
                    single = real.flen(f) == 1
                except real.LoopError:
                    single = False
                if single:
                    case["gtree"] = dump_tree(f.get_nonlazy_tree(0))
                counter["n"] = 0
                case["r3"] = {"ok": single, "single": single, "v": tagval(p3.call_actions(f[0])) if single else ["n"]}
        except Exception as e:  # noqa: BLE001
            case["r3"] = {"ok": False, "single": True, "v": ["n"], "err": type(e).__name__}
        out.append(case)
    return out


def judge(cases, tag_="act"):
    paths = tlcrun.write_shards(cases, scratch() + "/" + tag_, max_bytes=2_500_000, min_shards=8)
    rs = tlcrun.run_shards("ActCheck", "ActCheck.cfg", paths, procs=4, workers=4)
    v = {x[1]: x for r in rs for x in r.verdicts}
    if len(v) != len(cases):
        raise tlcrun.MachineryFailure("ActCheck: %d cases, %d verdicts" % (len(cases), len(v)))
    out = []
    for i, c in enumerate(cases):
        out.append({"name": c["name"], "gtext": c["gtext"], "kinds": c["kinds"], "tactions": c["tactions"], "input": c["input"], "origin": c["origin"],
                    "routes": {k: {"ok": c[k]["ok"], "err": c[k].get("err", "")} for k in ("r1", "r2", "r3", "r4")},
                    "sugar": any(k not in ("none", "single", "list", "obj") for k in c["akind"].values()),
                    "named": any(c["assign"]), "clauses": sorted(v[i][2])})
    return out, {"states": sum(r.distinct for r in rs), "generated": sum(r.generated for r in rs)}


def build(tier, seed):
    t = Timer()
    res = pool.flatten(pool.run_jobs("stage_act", "worker", _jobs(tier, seed), chunksize=4))
    cases = [c for c in res if "skip" not in c]
    log("action corpus: %d cases (%d grammars skipped: not LR) in %.1fs" % (len(cases), len(res) - len(cases), t.s()))
    out, stats = judge(cases)
    stats["skipped"] = len(res) - len(cases)
    log("action corpus judged in %.1fs" % t.s())
    return {"cases": out, "stats": stats}


def get(tier, seed):
    return stage.cached("act-" + tier, {"tier": tier, "seed": seed, "params": PARAMS[tier]}, lambda: build(tier, seed))
