"""C12 decided on the cache stage: Cache.tla graph replayed (spec -> code), CacheTrace.tla validation (code -> spec), Persist.tla."""
from . import stage_cache
from .checklib import Outcome
from .common import MachineryFailure, seed, tier


def c12(replay_case=None):
    out = Outcome("C12")
    if replay_case is not None:
        raise MachineryFailure("C12 replay: re-run harness/stage_cache.replay on the recorded action path (replay file holds the path and the real trace)")
    r = stage_cache.get(tier(), seed())
    st = r["stats"]
    out.cov["states"], out.cov["transitions"] = st["states"], st["generated"]
    if not st["graph"]["transparent_violated_in_machine"]:
        raise MachineryFailure("control failed: the reference Transparent is not violated by the machine although the modelled protocol ignores options")
    for c in r["traces"]:
        out.count()
        if c["verdict"] == "ok":
            out.cov["traces_validated_against_impl"] += 1
        n_constructs = sum(1 for e in c["trace"] if e["act"] == "DoConstruct")
        if n_constructs >= 2 or any(e["act"] == "DoCrash" or (e["act"] == "DoEdit" and e["arg"] != "root") for e in c["trace"]):
            out.nontrivial(c["name"])
            out.sample({"history": c["name"], "real_replies": [e["reply"] for e in c["trace"]], "cache_after": [e["pst"] + ":" + e["writer"] for e in c["trace"]]})
        rep = {"kind": "cache-history", "name": c["name"], "trace": c["trace"], "tlc": {"verdict": c["verdict"], "at": c["at"], "nontransparent": c["nontransparent"]}}
        if c["verdict"] != "ok":
            # the real directory did something the machine does not describe.  If the reply of a construction is involved it is a transparency
            # question and reported under the clause below; otherwise the model no longer describes the code (drift, DESIGN 5).
            bad = c["trace"][c["at"] - 1] if 0 < c["at"] <= len(c["trace"]) else None
            if bad and bad["act"] == "DoConstruct" and bad["reply"] != "table-fresh":
                out.fail("C12:not-transparent:" + bad["reply"], c["name"], rep, origin="det", facts={"cause:not-explained-by-the-machine"})
            elif bad and bad["act"] == "DoConstruct":
                out.drift.append("cache protocol: %s at step %d of %s (real: %s)" % (c["verdict"], c["at"], c["name"], bad))
                out.fail("C12:cache-state-after-construction", c["name"], rep, origin="det", facts={"cause:not-explained-by-the-machine"})
            else:
                out.drift.append("cache protocol: %s at step %d of %s" % (c["verdict"], c["at"], c["name"]))
        for step, reply, cause in c["nontransparent"]:
            out.fail("C12:not-transparent:" + reply, c["name"] + " @step %d" % step, rep, origin="det", facts={"cause:" + cause})
    hs = st["hgraph"]
    if not all(hs["controls_violated"]):
        raise MachineryFailure("control failed: HintCache's reference / pre-repair machines must each violate their invariant: %s" % hs["controls_violated"])
    for c in r["hint_traces"]:
        # the compiled error hints (.pgec): same two directions on HintCache.tla
        out.count()
        name = "hints: " + c["name"]
        if c["verdict"] == "ok":
            out.cov["traces_validated_against_impl"] += 1
        if sum(1 for e in c["trace"] if e["act"] == "DoConstruct") >= 2 or any(e["act"] in ("DoCrash", "DoEditHints") or (e["act"] == "DoEdit" and e["arg"] != "root") for e in c["trace"]):
            out.nontrivial(name)
            out.sample({"history": name, "real_replies": [e["reply"] for e in c["trace"]], "hints_file_after": [e["pst"] + ":" + e["writer"] for e in c["trace"]]})
        rep = {"kind": "hint-cache-history", "name": name, "trace": c["trace"], "tlc": {"verdict": c["verdict"], "at": c["at"], "nontransparent": c["nontransparent"]}}
        if c["verdict"] != "ok":
            bad = c["trace"][c["at"] - 1] if 0 < c["at"] <= len(c["trace"]) else None
            if bad and bad["act"] == "DoConstruct" and bad["reply"] != "hints-fresh":
                out.fail("C12:hints-not-transparent:" + bad["reply"], name, rep, origin="det", facts={"cause:not-explained-by-the-machine"})
            elif bad and bad["act"] == "DoConstruct":
                out.drift.append("hint cache protocol: %s at step %d of %s (real: %s)" % (c["verdict"], c["at"], name, bad))
                out.fail("C12:hints-file-after-construction", name, rep, origin="det", facts={"cause:not-explained-by-the-machine"})
            else:
                out.drift.append("hint cache protocol: %s at step %d of %s" % (c["verdict"], c["at"], name))
        for step, reply, cause in c["nontransparent"]:
            out.fail("C12:hints-not-transparent:" + reply, name + " @step %d" % step, rep, origin="det", facts={"cause:" + cause})
    for c in r["roundtrip"]:
        out.count()
        out.cov["traces_validated_against_impl"] += 1
        if c["nbytes"] > 600:
            out.nontrivial("rt:" + c["name"])
        for cl in c["clauses"]:
            out.fail(cl, c["name"], {"kind": "roundtrip", "name": c["name"], "tlc": {"clauses": c["clauses"]}}, origin=c["origin"])
    out.assumptions = ["mtimes are set explicitly (os.utime) from the machine's clock, one tick per step: no equal mtimes",
                       "a crash of the table write is injected underneath the real save_table (a file object that fails after k characters, k varied by step); a crash of the hints write inside json.dump; touching the .pgc itself is not an action (it fabricates freshness)",
                       "writers of a complete cache file are identified by comparing its bytes with the no-cache serialisation for each option set and content version",
                       "force_load_table is outside the statement and not an action"]
    return out.finish(extra_cov={
        "rule": "histories = every transition of Cache.tla's and of HintCache.tla's reachable graph (quick: shortest path to the source + the transition, depth <= 3; thorough: all paths, depth <= 4; "
                "plus directed construct ; edit ; crash ; construct histories) over "
                "{construct lr/glr/slr, crash while saving (the real write path over a file that fails after k characters), pglr compile, edit/touch root and imported grammar; for the hints cache: construct lr/glr, crash while the hints are written, edit root / imported grammar / examples}; each replayed on a real directory and its real trace validated by TLC; "
                "plus save/load round trips of tables of enumerated/random grammars; non-trivial = >= 2 constructions, a crash or an edit of the imported file; round trip: table > 600 bytes",
        "graph": {k: st[k] for k in ("graph_states", "graph_transitions", "paths")},
        "hint_cache_graph": {k: st[k] for k in ("hgraph_states", "hgraph_transitions", "hpaths")} | {"negative_controls_violated": st["hgraph"]["controls_violated"]},
        "exhaustive": True})
