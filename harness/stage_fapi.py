"""C03 (histories): Forest API call histories enumerated / simulated by TLC (ForestAPI.tla), replayed on real forests, validated by ForestAPITrace.tla."""
import os
import re

from . import pool, stage, tlcrun
from .common import SPEC, log, scratch, Timer
from .corpus_glr import tkey

PARAMS = {"quick": dict(max_steps=3, sim=150, sim_depth=5), "thorough": dict(max_steps=4, sim=4000, sim_depth=7)}
FORESTS = [
    ('E: E "+" E | E "*" E | E "-" E | "n";', ["n+n*n", "n+n*n-n", "n", "n*n+n-n+n"]),
    ('S: A S | "b"; A: S | "a";', ["bbb", "abb", "bbbb"]),                # duplicates (D2) on some inputs
    ('S: "x" E; E: E "+" E | "n";', ["x n+n+n", "x n"]),                     # unambiguous root
    ('S: T+; T: a | b | U; U: b;\nterminals\na: "x";\nb: "xx";', ["xx", "xxx"]),   # lexical ambiguity of different lengths
    ('S: S S | "a";', ["aaaa", "aaa"]),
    ('L: I*; I: "i" | "i" "i";', ["iii", "iiii"]),
]


def histories(max_steps, sim, sim_depth, seed):
    d = os.path.join(scratch(), "fapi-%d" % os.getpid())
    os.makedirs(d, exist_ok=True)
    cfg = os.path.join(d, "ForestAPI.cfg")
    with open(os.path.join(SPEC, "ForestAPI.cfg")) as f:
        txt = re.sub(r"MaxSteps = \d+", "MaxSteps = %d" % max_steps, f.read())
    with open(cfg, "w") as f:
        f.write(txt)
    r = tlcrun.run_tlc("ForestAPI", cfg, workers=4, tag="HIST")
    hs = [[list(ev) for ev in v[1]] for v in r.verdicts]
    stats = {"states": r.distinct, "generated": r.generated, "exhaustive_histories": len(hs)}
    sims = []
    if sim:
        cfg2 = os.path.join(d, "ForestAPISim.cfg")
        with open(os.path.join(SPEC, "ForestAPISim.cfg")) as f:
            txt = re.sub(r"MaxSteps = \d+", "MaxSteps = %d" % sim_depth, f.read())
        with open(cfg2, "w") as f:
            f.write(txt)
        r2 = tlcrun.run_tlc("ForestAPI", cfg2, workers=1, tag="HIST", extra=["-simulate", "num=%d" % sim, "-depth", str(sim_depth + 1), "-seed", str(2000 + seed)])
        sims = [[list(ev) for ev in v[1]] for v in r2.verdicts]
        stats["simulated_histories"] = len(sims)
    return hs, sims, stats


def replay(job):
    from . import real

    out = []
    with real.quiet():
        parser = real.GLRParser(real.Grammar.from_string(job["gtext"]))
    for hist in job["hists"]:
        with real.quiet():
            forest = parser.parse(job["input"])
        nodes = real.export_forest(forest)
        try:
            n0 = len(forest)
        except real.LoopError:
            continue
        forest = parser.parse(job["input"])   # a fresh object: the export above warmed nothing on this one
        trace = []
        for op, arg in hist:
            ev = {"op": op, "idx": -1, "policy": "", "r": {"kind": "none"}}
            try:
                with real.guard(10):
                    cur = None
                    if op in ("lazy", "nonlazy"):
                        cur = len(forest)
                        idx = {"0": 0, "1": 1, "mid": cur // 2, "last": max(cur - 1, 0), "len": cur, "len+1": cur + 1, "big": 10**12}[arg]
                        ev["idx"] = min(idx, 10**6)
                        t = forest.get_tree(idx) if op == "lazy" else forest.get_nonlazy_tree(idx)
                        ev["r"] = {"kind": "tree", "tree": tkey(t)}
                    elif op == "len":
                        ev["r"] = {"kind": "int", "v": len(forest)}
                    elif op == "solutions":
                        ev["r"] = {"kind": "int", "v": forest.solutions}
                    elif op == "ambiguities":
                        ev["r"] = {"kind": "int", "v": forest.ambiguities}
                    elif op == "first":
                        ev["r"] = {"kind": "tree", "tree": tkey(forest.get_first_tree())}
                    elif op == "iter":
                        ev["r"] = {"kind": "trees", "trees": [tkey(t) for t in forest]}
                    elif op == "iter_nonlazy":
                        ev["r"] = {"kind": "trees", "trees": [tkey(t) for t in forest.nonlazy_iter()]}
                    elif op == "tostr":
                        forest.to_str()
                        ev["r"] = {"kind": "str"}
                    elif op == "disambiguate":
                        ev["policy"] = arg

                        def fn(parent, arg=arg):
                            ps = parent.possibilities
                            parent.possibilities = ps[:1] if arg == "keep-first" else ps[-1:] if arg == "keep-last" else ps[:-1]
                        forest.disambiguate(fn)
            except IndexError:
                ev["r"] = {"kind": "IndexError"}
            except Exception as e:  # noqa: BLE001
                ev["r"] = {"kind": "exc:" + type(e).__name__}
            trace.append(ev)
        out.append({"name": "%s @ %r :: %s" % (job["gtext"].replace("\n", " "), job["input"], " ; ".join("%s(%s)" % (o, a) if a else o for o, a in hist)),
                    "origin": job["origin"], "nodes": nodes["nodes"], "root": nodes["root"], "trace": trace, "len0": n0})
    return out


def build(tier, seed):
    t = Timer()
    p = PARAMS[tier]
    hs, sims, gstats = histories(p["max_steps"], p["sim"], p["sim_depth"], seed)
    jobs = []
    k = 0
    for gtext, inputs in FORESTS:
        for w in inputs:
            # every forest sees a slice of the exhaustive histories (all of them over the corpus) and of the simulated ones
            # (all 4-step histories on every forest is tens of gigabytes of recorded replies: every forest sees a quarter of them, every history
            # is seen by four forests)
            mine = hs[k::len(FORESTS) * 2] if tier == "quick" else hs[k % 4::4]
            jobs.append({"gtext": gtext, "input": w, "hists": mine, "origin": "det"})
            jobs.append({"gtext": gtext, "input": w, "hists": sims[k::7], "origin": "rand"})
            k += 1
    traces = pool.flatten(pool.run_jobs("stage_fapi", "replay", jobs, chunksize=1))
    log("forest API: %d exhaustive + %d simulated histories from TLC, %d replays in %.1fs" % (len(hs), len(sims), len(traces), t.s()))
    shards = tlcrun.write_shards(traces, scratch() + "/fapitrace")
    rs = tlcrun.run_shards("ForestAPITrace", "ForestAPITrace.cfg", shards, procs=4, workers=4)
    v = {x[1]: x for r in rs for x in r.verdicts}
    if len(v) != len(traces):
        raise tlcrun.MachineryFailure("ForestAPITrace: %d traces, %d verdicts" % (len(traces), len(v)))
    out = [{"name": tr["name"], "origin": tr["origin"], "bad": sorted([list(x) for x in v[i][2]]), "facts": sorted(v[i][3]), "len0": tr["len0"],
            "replies": [[e["op"], e["idx"], e["policy"], e["r"]["kind"], e["r"].get("v", "")] for e in tr["trace"]]} for i, tr in enumerate(traces)]
    stats = {"states": gstats["states"] + sum(r.distinct for r in rs), "generated": gstats["generated"] + sum(r.generated for r in rs), "gen": gstats}
    log("forest API stage done in %.1fs" % t.s())
    return {"traces": out, "stats": stats}


def get(tier, seed):
    return stage.cached("fapi-" + tier, {"tier": tier, "seed": seed, "params": PARAMS[tier]}, lambda: build(tier, seed))
