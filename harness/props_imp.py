"""C20 decided on the import stage (Imports.tla / ImportCheck.tla)."""
from . import stage_imp
from .checklib import Outcome
from .common import MachineryFailure, seed, tier


def c20(replay_case=None):
    out = Outcome("C20")
    if replay_case is not None:
        raise MachineryFailure("C20 replay: write the recorded file texts to a directory and load root.pg (replay file holds the texts)")
    r = stage_imp.get(tier(), seed())
    st = r["stats"]
    out.cov["states"], out.cov["transitions"] = st["states"], st["generated"]
    for c in r["cases"]:
        rep = {"kind": "import-case", "name": c["name"], "files": c["texts"], "err": c["err"]}
        facts = set(c["facts"])
        for cl in c["case_clauses"]:
            out.fail(cl, c["name"], rep, origin=c["origin"], facts=facts)
        if not c["inputs"]:
            out.count()
        for e in c["inputs"]:
            out.count()
            out.cov["traces_validated_against_impl"] += 1
            name = "%s @ %s" % (c["name"], " ".join(e["toks"]))
            if e["ok"] and c["nfiles"] >= 3:
                out.nontrivial(name)
                out.sample({"case": c["name"], "files": c["texts"], "input": e["toks"], "accepted": e["ok"]}, limit=3)
            for cl in e["clauses"]:
                out.fail(cl, name, dict(rep, input=e["toks"], raised=e["raised"]), origin=c["origin"], facts=facts)
    out.assumptions = ["reference semantics transcribed in Imports.tla from docs/grammar_modularization.md; of imported files only (transitively) referenced rules become part of the grammar (observed, language-neutral)",
                       "helper rules of the sugar are compared up to their names; overrides are written under the first-path name with bodies of inline strings only (the documentation does not say how names inside an override body resolve)",
                       "terminal texts are globally unique apart from shared inline strings"]
    return out.finish(extra_cov={
        "rule": "cases = generated file sets over 10 import graph shapes (chains, tree, diamond in both import orders, triangle, cycles of 2 and 3, fan-in) with and without aliases, two-level qualified "
                "references, repetition sugar on imported rules, same local rule names in several files, overrides; each written to disk and loaded with Grammar.from_file; "
                "productions and terminals vs Imports!Flatten, acceptance of token sequences vs CFG over the flattened productions, results vs Actions!Eval; non-trivial = accepted input on >= 3 files"})
