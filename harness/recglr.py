"""Recorder for the GLR hook events (H-glr-*, DESIGN 4.1): turns raw objects handed to the sink
into one JSON event per spec action.  Link ids are per-parse sequence numbers of Parent objects
(objects are kept alive so id() cannot be recycled).  No wall clock, no threads.
"""
from . import real
from .real import _verif


class GLRRecorder:
    def __init__(self):
        self.ev = []
        self.lid = {}
        self.keep = []
        self.lim = [False]

    def link_id(self, p):
        if p is None:
            return 0
        k = id(p)
        if k not in self.lid:
            self.lid[k] = len(self.lid) + 1
            self.keep.append(p)
        return self.lid[k]

    @staticmethod
    def node(h):
        return {
            "st": h.state.state_id,
            "pos": h.position,
            "fr": h.frontier,
            "la": h.token_ahead.symbol.name if h.token_ahead is not None else "-",
        }

    def __call__(self, kind, f):
        if not kind.startswith("glr_"):
            return
        parser = f["parser"]
        err = bool(getattr(parser, "_in_error_reporting", False))
        if kind == "glr_scan":
            heads = [self.node(h) for d in parser._active_heads_per_symbol.values() for h in d.values()]
            self.ev.append({"e": "scan", "heads": heads})
        elif kind == "glr_reductions_enter":
            self.lim.append(f["update_parent"] is not None)
        elif kind == "glr_reductions_exit":
            if len(self.lim) > 1:
                self.lim.pop()
        elif kind == "glr_reduce":
            node = f["node"]
            self.ev.append(
                {
                    "e": "red",
                    "by": self.node(f["head"]),
                    "err": err,
                    "nh": self.node(f["target"]),
                    "root": self.node(f["root"]),
                    "p": f["production"].prod_id,
                    "kids": [self.link_id(c) for c in node.children],
                    "link": self.link_id(f["link"]),
                    "created": bool(f["created"]),
                    "rev": bool(self.lim[-1]),
                }
            )
        elif kind == "glr_shift_phase":
            self.ev.append({"e": "shiftphase", "err": err})
        elif kind == "glr_shift":
            head, parent = f["head"], f["parent"]
            tok = head.token_ahead
            self.ev.append(
                {
                    "e": "shift",
                    "nh": self.node(f["target"]),
                    "root": self.node(head),
                    "tok": tok.symbol.name,
                    "len": len(tok),
                    "ltok": parent.token.symbol.name if parent.token is not None else "-",
                    "lstart": parent.start_position,
                    "lend": parent.end_position,
                    "link": self.link_id(f["link"]),
                }
            )
        elif kind == "glr_accept":
            self.ev.append({"e": "acc", "head": self.node(f["head"])})
        elif kind == "glr_error_enter":
            self.ev.append({"e": "errenter"})
        elif kind == "glr_error_finish":
            self.ev.append({"e": "errfinish", "exp": sorted(s.name for s in parser._expected)})
        elif kind == "glr_recover":
            h = f["head"]
            self.ev.append(
                {
                    "e": "recover",
                    "ok": bool(f["successful"]),
                    "head": self.node(h),
                }
            )


def record(parser, text, timeout=10, **kw):
    """Run parser.parse(text) with the recorder installed.  Returns (result|None, exception|None, events)."""
    rec = GLRRecorder()
    _verif.sink = rec
    res = exc = None
    try:
        with real.guard(timeout), real.quiet():
            res = parser.parse(text, **kw)
    except real.Timeout:
        exc = real.Timeout()
    except Exception as e:  # noqa: BLE001
        exc = e
    finally:
        _verif.sink = None
    return res, exc, rec.ev
