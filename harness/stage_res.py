"""C06 (table level): real statically RESOLVED LR tables vs Resolve.tla, walked by ResolvedWalk.tla; design-level theorem PrecDesign.tla.

Two corpora:
  ops    the operator tables of the C06 corpus (stage_prec._tables) as expression grammars, Parser and GLRParser tables, strategies off
  marks  small general grammars with random priority / associativity / nops / nopse marks, GLRParser tables (conflicts stay in the
         cells) under the four prefer-shift combinations, LALR and SLR
The production attributes handed to TLC are the INTENDED ones (what the generator wrote into the grammar text)."""
import os
import random
import re

from . import gen, pool, stage, stage_prec, tlcrun
from .common import SPEC, log, scratch, Timer

PARAMS = {"quick": dict(nops=140, nmarks=150, design=[(2, 7, 4), (3, 7, 3)]),
          "thorough": dict(nops=2500, nmarks=4000, design=[(2, 9, 5), (3, 9, 4), (4, 7, 2)])}
DEFAULT = {"prio": 10, "assoc": "none", "nops": False, "nopse": False}


def marked_text(g, marks):
    """grammar text with production-level marks; marks: list parallel to g['prods'] of dicts (or None)"""
    by, order = {}, []
    for (lhs, rhs), m in zip(g["prods"], marks):
        if lhs not in by:
            by[lhs] = []
            order.append(lhs)
        meta = []
        if m:
            if m["assoc"] != "none":
                meta.append(m["assoc"])
            if m["prio"] != 10:
                meta.append(str(m["prio"]))
            if m["nops"]:
                meta.append("nops")
            if m["nopse"]:
                meta.append("nopse")
            if m.get("dynamic"):
                meta.append("dynamic")    # no meaning for the STATIC table (only for a dynamic filter): Resolve.tla does not know it
        by[lhs].append((" ".join(rhs) if rhs else "EMPTY") + ((" {%s}" % ", ".join(meta)) if meta else ""))
    s = "".join("%s: %s;\n" % (lhs, " | ".join(by[lhs])) for lhs in order)
    s += "terminals\n" + "".join('%s: "%s";\n' % (n, p) for n, _, p in g["terms"])
    return s


def worker(job):
    from . import real

    out = []
    if job["kind"] == "ops":
        table, order = job["table"], job["order"]
        text = stage_prec.table_text(table, order, rulelevel=job.get("rulelevel", False))
        configs = [("lr", "LALR", False, False), ("glr", "LALR", False, False), ("lr", "SLR", False, False)]
    else:
        text = marked_text(job["g"], job["marks"])
        configs = [("glr", tb, ps, pse) for tb in ("LALR", "SLR") for ps, pse in ((False, False), (True, False), (False, True), (True, True))]
        # options left unspecified take the DOCUMENTED defaults of GLRParser (docs/parser.md: both strategies off), whatever the other one is
        configs += [("glr", "LALR", True, None), ("glr", "LALR", None, True), ("glr", "LALR", None, None)]
    for kind, tables, ps, pse in configs:
        given = {k: v for k, v in (("prefer_shifts", ps), ("prefer_shifts_over_empty", pse)) if v is not None}
        parser, err = real.build(kind, text, tables=tables, **given)
        name = "%s [%s,%s,%s]" % (job["name"], kind, tables, ",".join("%s=%s" % (k.replace("prefer_shifts", "ps").replace("_over_empty", "e"), "unspecified" if v is None else int(v))
                                                                   for k, v in (("prefer_shifts", ps), ("prefer_shifts_over_empty", pse))))
        ps, pse = bool(ps), bool(pse)      # unspecified = the documented GLR default (off)
        if parser is None:
            out.append({"name": name, "origin": job["origin"], "built": False, "err": err, "gtext": text, "kind": job["kind"]})
            continue
        g = parser.grammar
        prods = real.prods_json(g)
        attrs = []
        if job["kind"] == "ops":
            for p in prods:
                op = p["rhs"][1] if len(p["rhs"]) == 3 and p["rhs"][1] in table else None
                inherited = dict(DEFAULT)
                if job.get("rulelevel") and p["lhs"] == "E":
                    ra, rp = stage_prec.rule_meta(table, order)     # "n" and "(" E ")" inherit the rule-level marks
                    inherited = dict(DEFAULT, prio=rp, assoc=ra)
                attrs.append(dict(DEFAULT, prio=table[op][0], assoc=table[op][1]) if op else inherited)
        else:
            # productions of the loaded grammar in text order: S' first, then the rules in the order written
            want = {}
            for (lhs, rhs), m in zip(job["g"]["prods"], job["marks"]):
                want[(lhs, tuple(rhs))] = {k: v for k, v in (m or DEFAULT).items() if k != "dynamic"}
            for p in prods:
                attrs.append(dict(want.get((p["lhs"], tuple(p["rhs"])), DEFAULT)))
        out.append({"name": name, "origin": job["origin"], "built": True, "err": "", "gtext": text, "kind": job["kind"], "prods": prods, "attrs": attrs,
                    "terms": real.term_names(g), "real": real.table_json(parser), "slr": tables == "SLR", "ps": ps, "pse": pse})
    return out


def _jobs(tier, seed):
    p = PARAMS[tier]
    jobs = []
    tabs = stage_prec._tables(tier, seed)
    rng = random.Random(616)
    pick = tabs if len(tabs) <= p["nops"] else tabs[:40] + rng.sample(tabs[40:], p["nops"] - 40)
    for i, t in enumerate(pick):
        jobs.append({"kind": "ops", "table": t["table"], "order": t["order"], "origin": t["origin"], "rulelevel": t.get("rulelevel", False),
                     "name": "ops%s %s order %s" % (" rule-level" if t.get("rulelevel") else "", " ".join("%s:%d%s" % (o, pr, a[0]) for o, (pr, a) in sorted(t["table"].items())), "".join(x[0] for x in t["order"]))})
    fam = gen.ACCEPT_VS_EMPTY + gen.family(3, 3, limit=p["nmarks"] // 3, rng_seed=661) + gen.family(4, 2, nts=("S", "A", "B"), terms=gen.PLAIN_TERMS, limit=p["nmarks"] // 3, rng_seed=662) + \
        gen.idiom_family(limit=p["nmarks"] // 3, rng_seed=663)
    rng = random.Random(617)
    rng2 = random.Random(21000037 * (seed + 1))
    for i, g in enumerate(fam):
        r = rng if i % 4 else rng2
        for variant in ("flags", "prio"):
            marks = []
            for lhs, rhs in g["prods"]:
                if variant == "flags":
                    # strategy marks only: the cell is decided by prefer_shifts / prefer_shifts_over_empty and nops / nopse
                    m = {"prio": 10, "assoc": "none", "nops": r.random() < 0.5, "nopse": r.random() < 0.5}
                else:
                    m = {"prio": r.choice([5, 10, 10, 15]), "assoc": r.choice(["none", "left", "right"]), "nops": r.random() < 0.25, "nopse": r.random() < 0.25}
                if r.random() < 0.3:
                    m["dynamic"] = True
                marks.append(m if m != DEFAULT else None)
            jobs.append({"kind": "marks", "g": g, "marks": marks, "origin": "det" if i % 4 else "rand",
                         "name": "marks " + marked_text(g, marks).split("terminals")[0].replace("\n", " ").strip()})
    return jobs


def design(tier):
    """PrecDesign.tla: Resolve => deterministic table and the precedence-correct tree, exhaustively for K operators; plus the negative control"""
    d = os.path.join(scratch(), "precdesign-%d" % os.getpid())
    os.makedirs(d, exist_ok=True)
    with open(os.path.join(SPEC, "PrecDesign.cfg")) as f:
        base = f.read()
    runs = []
    for k, sl, al in PARAMS[tier]["design"]:
        cfg = os.path.join(d, "PrecDesign_%d.cfg" % k)
        txt = re.sub(r"K = \d+", "K = %d" % k, base)
        txt = re.sub(r"SentLen = \d+", "SentLen = %d" % sl, txt)
        txt = re.sub(r"AnyLen = \d+", "AnyLen = %d" % al, txt)
        with open(cfg, "w") as f:
            f.write(txt)
        r = tlcrun.run_tlc("PrecDesign", cfg, workers=8, tag="NONE", heavy=True, timeout=3000, allow_violation=True)
        runs.append({"K": k, "SentLen": sl, "AnyLen": al, "states": r.distinct, "generated": r.generated, "violated": r.violated})
    neg = tlcrun.run_tlc("PrecDesign", os.path.join(SPEC, "PrecDesignNeg.cfg"), workers=4, tag="NONE", allow_violation=True)
    return {"runs": runs, "violated": next((x["violated"] for x in runs if x["violated"]), None), "neg_violated": neg.violated,
            "states": sum(x["states"] for x in runs) + neg.distinct, "generated": sum(x["generated"] for x in runs) + neg.generated}


def judge(cases, tag_="res"):
    built = [c for c in cases if c["built"]]
    paths = tlcrun.write_shards(built, scratch() + "/" + tag_)
    rs = tlcrun.run_shards("ResolvedWalk", "ResolvedWalk.cfg", paths, procs=4, workers=4)
    bad, sens, seen = {}, {}, set()
    for r in rs:
        for v in r.verdicts:
            bad.setdefault(v[1], []).append({"clauses": sorted(v[2]), "state": v[3], "detail": str(v[4])[:600]})
        for v in tlcrun.extract_tuples(r.out, "SENSITIVE"):
            sens.setdefault(v[1], set()).add(v[2])
        for v in tlcrun.extract_tuples(r.out, "CASE"):
            seen.add(v[1])
    if len(seen) != len(built):
        raise tlcrun.MachineryFailure("ResolvedWalk: %d cases, %d walked" % (len(built), len(seen)))
    out = []
    for i, c in enumerate(built):
        conflicts = sum(1 for s in c["real"] for a in s["actions"].values() if len(a) > 1)
        out.append({"name": c["name"], "origin": c["origin"], "kind": c["kind"], "gtext": c["gtext"], "bad": bad.get(i, []), "sensitive_states": len(sens.get(i, ())),
                    "states": len(c["real"]), "conflict_cells": conflicts, "marked": sum(1 for a in c["attrs"] if a != DEFAULT)})
    unbuilt = [{"name": c["name"], "err": c["err"], "kind": c["kind"], "origin": c["origin"], "gtext": c["gtext"]} for c in cases if not c["built"]]
    return out, unbuilt, {"states": sum(r.distinct for r in rs), "generated": sum(r.generated for r in rs)}


def build(tier, seed):
    t = Timer()
    cases = pool.flatten(pool.run_jobs("stage_res", "worker", _jobs(tier, seed)))
    log("resolved tables: %d tables recorded in %.1fs" % (len(cases), t.s()))
    out, unbuilt, stats = judge(cases)
    log("resolved tables walked in %.1fs" % t.s())
    d = design(tier)
    log("PrecDesign checked in %.1fs" % t.s())
    return {"cases": out, "unbuilt": unbuilt, "stats": stats, "design": d}


def get(tier, seed):
    return stage.cached("res-" + tier, {"tier": tier, "seed": seed, "params": PARAMS[tier]}, lambda: build(tier, seed))
