"""C20: generated import graphs written to files, loaded by the real Grammar.from_file, judged by ImportCheck.tla."""
import itertools
import os
import random
import shutil
import tempfile

from . import pool, stage, tlcrun
from .common import log, scratch, Timer
from .stage_act import dump_tree, helper_kind, tagval

PARAMS = {"quick": dict(n=260), "thorough": dict(n=7000)}
SHAPES = {
    # file index -> list of imported file indices (import order matters for FQNs)
    "chain2": {0: [1], 1: []},
    "chain3": {0: [1], 1: [2], 2: []},
    "tree3": {0: [1, 2], 1: [], 2: []},
    "diamond": {0: [1, 2], 1: [3], 2: [3], 3: []},
    "diamond-rev": {0: [2, 1], 1: [3], 2: [3], 3: []},
    "triangle": {0: [1, 2], 1: [2], 2: []},
    "cycle2": {0: [1], 1: [0]},
    "cycle3": {0: [1], 1: [2], 2: [0]},
    "chain4": {0: [1], 1: [2], 2: [3], 3: []},
    "fan-in": {0: [1, 2, 3], 1: [3], 2: [3], 3: []},
}
FNAMES = ["root", "base", "mid", "leaf"]
# directory layouts (C20: "a grammar split into files": files may live in different directories, imported by relative paths incl. '..')
DIRS = [
    {"root": "", "base": "", "mid": "", "leaf": ""},
    {"root": "", "base": "lib", "mid": "lib", "leaf": ""},
    {"root": "", "base": "lib", "mid": "", "leaf": "lib/deep"},
    {"root": "top", "base": "lib", "mid": "top/sub", "leaf": "lib"},
]
RULES = ["A", "B", "C", "D", "L"]   # 'L' is deliberately used as a rule name in several files (same local name)


def gen_case(rng, shape_name, with_override, with_sugar, with_alias):
    shape = SHAPES[shape_name]
    files = {}
    nfiles = len(shape)
    # rules per file
    defs = {i: (["S"] if i == 0 else []) + rng.sample(RULES[:4], rng.randint(1, 2)) + (["L"] if rng.random() < 0.5 else []) for i in range(nfiles)}
    aliases = {i: {} for i in range(nfiles)}
    # positional aliases: the k-th import of EVERY file is called m<k>, so one module name means different files in different files
    # (round-4 seeded change C20-g: qualified names were cached grammar-wide under the name as written)
    positional = with_alias and rng.random() < 0.3
    for i, imps in shape.items():
        for k, j in enumerate(imps):
            aliases[i][j] = ("m%d" % k) if positional else (FNAMES[j][0] + "x") if (with_alias and rng.random() < 0.5) else FNAMES[j]
    # which files declare the terminal TT (the same bare name with a different recognizer in each file); decided first: TT is also used as a
    # SEPARATOR, by its local name or through an import (finding D32: helper rules are named after the separator's local name only)
    has_tt = {i: rng.random() < 0.5 for i in range(nfiles)}
    tcount = [0]

    def fresh_text(i):
        tcount[0] += 1
        return "%s%d" % ("rbml"[i], tcount[0])

    def reach_refs(i):
        """references writable in file i: local rules, rules of directly imported files, and of their imports (2-level)"""
        out = [((), n, i) for n in defs[i]]
        for j in shape[i]:
            out += [((aliases[i][j],), n, j) for n in defs[j]]
            for k in shape[j]:
                out += [((aliases[i][j], aliases[j][k]), n, k) for n in defs[k]]
        return out

    for i in range(nfiles):
        rules = []
        terms = []
        if rng.random() < 0.6:
            terms.append({"name": "T%d" % i, "text": "t%d" % i})
        if has_tt[i]:
            # the SAME bare terminal name in several files, with a different recognizer in each (qualified names keep them apart)
            terms.append({"name": "TT", "text": "u%d" % i})
        for n in defs[i]:
            alts = [[{"kind": "str", "text": fresh_text(i)}]]    # a productive alternative
            for _ in range(rng.randint(1, 2)):
                alt = []
                for _ in range(rng.randint(1, 3)):
                    r = rng.random()
                    if r < 0.3:
                        alt.append({"kind": "str", "text": rng.choice(["x", "y", fresh_text(i)])})
                    elif r < 0.4 and terms:
                        alt.append({"kind": "ref", "parts": [rng.choice(terms)["name"]], "mult": "", "sep": []})
                    else:
                        mods, name, _j = rng.choice(reach_refs(i))
                        mult = rng.choice(["+", "*", "?"]) if (with_sugar and rng.random() < 0.3) else ""
                        sep = []
                        if mult in ("+", "*") and rng.random() < 0.5:
                            seps = ([["TT"]] if has_tt[i] else []) + [[aliases[i][j], "TT"] for j in shape[i] if has_tt[j]]
                            if seps:
                                sep = rng.choice(seps)
                        alt.append({"kind": "ref", "parts": list(mods) + [name], "mult": mult, "sep": sep, "tgt": [_j, name]})
                alts.append(alt)
            if with_sugar and rng.random() < 0.3:
                # named matches (the rule's default action builds an object): also in IMPORTED files (finding D31)
                k = 0
                for alt in alts:
                    for it in alt:
                        if rng.random() < 0.6:
                            k += 1
                            it["name"] = "m%d" % k
            rules.append({"name": [n], "alts": alts})
        if i == 0 and rng.random() < 0.3:
            # a KEYWORD rule in the ROOT file governs the string terminals of every file (round-4 seeded change C20-h)
            terms.append({"name": "KEYWORD", "text": "/\\w+/", "re": True})
        files[i] = {"imports": [{"alias": aliases[i][j], "target": FNAMES[j]} for j in shape[i]], "rules": rules, "terms": terms}
    # A repetition over a rule whose result can be None (an alternative that is just `X?`, or just a reference to such a rule) is not generated:
    # the built-in collect actions drop None elements after the first, which the documentation does not describe either way (the leniency
    # rule of DESIGN 5, as in sugar.strip_none_repetitions for C13; without it the seeded random part alarmed under VERIF_SEED=2 on
    # `leaf.L+[TT]` with `L: ... | C?`).  Repeated until nothing changes: stripping `X+` down to `X` can make the enclosing rule None-valued.
    changed = True
    while changed:
        changed = False
        noneable = set()
        grow = True
        while grow:
            grow = False
            for i in range(nfiles):
                for r in files[i]["rules"]:
                    key = (i, r["name"][0])
                    if key in noneable:
                        continue
                    for alt in r["alts"]:
                        if len(alt) == 1 and alt[0]["kind"] == "ref" and not alt[0].get("name") and "tgt" in alt[0] and \
                                (alt[0]["mult"] == "?" or (alt[0]["mult"] == "" and tuple(alt[0]["tgt"]) in noneable)):
                            noneable.add(key)
                            grow = True
                            break
        for i in range(nfiles):
            for r in files[i]["rules"]:
                for alt in r["alts"]:
                    for it in alt:
                        if it["kind"] == "ref" and it["mult"] in ("+", "*") and "tgt" in it and tuple(it["tgt"]) in noneable:
                            it["mult"], it["sep"] = "", []
                            changed = True
    if with_override:
        # override one rule of a file reachable from the root, written under the FIRST-path name, body of inline strings only
        first = {}

        def dfs(i, path):
            if i in first:
                return
            first[i] = path
            for j in shape[i]:
                dfs(j, path + [aliases[i][j]])
        dfs(0, [])
        cands = [(i, n) for i in first if i != 0 for n in defs[i]]
        if cands:
            i, n = rng.choice(cands)
            files[0]["rules"].append({"name": first[i] + [n], "alts": [[{"kind": "str", "text": "ov"}], [{"kind": "str", "text": "ov"}, {"kind": "str", "text": "x"}]]})
    return {FNAMES[i]: files[i] for i in range(nfiles)}


def file_text(f, me="root", dirs=None):
    dirs = dirs or DIRS[0]

    def rel(target):
        p = os.path.relpath(os.path.join("/", dirs[target], target + ".pg"), os.path.join("/", dirs[me]))
        return p
    out = "".join('import "%s"%s;\n' % (rel(imp["target"]), "" if imp["alias"] == imp["target"] else " as " + imp["alias"]) for imp in f["imports"])
    for r in f["rules"]:
        if r.get("action"):
            out += "@%s\n" % r["action"]
        alts = []
        for alt in r["alts"]:
            alts.append(" ".join((it["name"] + "=" if it.get("name") else "") + (('"%s"' % it["text"]) if it["kind"] == "str" else ".".join(it["parts"]) + it["mult"] + ("[%s]" % ".".join(it["sep"]) if it.get("sep") else ""))
                                 for it in alt) or "EMPTY")
        out += "%s: %s;\n" % (".".join(r["name"]), " | ".join(alts))
    if f["terms"]:
        out += "terminals\n" + "".join(('%s: %s;\n' % (t["name"], t["text"])) if t.get("re") else ('%s: "%s";\n' % (t["name"], t["text"])) for t in f["terms"])
    return out


def worker(job):
    from . import real

    files = job["files"]
    d = tempfile.mkdtemp(prefix="imp-", dir=scratch())
    dirs = DIRS[job.get("dirs", 0)]
    case = {"name": job["name"], "origin": job["origin"], "files": files, "root": "root",
            "texts": {os.path.join(dirs[k], k + ".pg"): file_text(v, k, dirs) for k, v in files.items()},
            "built": False, "err": "", "prods": [], "terms": [], "akind": {}, "assign": [], "inputs": [], "helpers": {}}
    try:
        for fn, f in files.items():
            os.makedirs(os.path.join(d, dirs[fn]), exist_ok=True)
            with open(os.path.join(d, dirs[fn], fn + ".pg"), "w") as fh:
                fh.write(file_text(f, fn, dirs))
        try:
            with real.guard(20), real.quiet():
                g = real.Grammar.from_file(os.path.join(d, dirs["root"], "root.pg"))
                parser = real.GLRParser(g)
        except Exception as e:  # noqa: BLE001
            case["err"] = "%s: %s" % (type(e).__name__, str(e)[:160])
            return [case]
        case["built"] = True
        flat = _flat_parser(real, g)
        case["prods"] = [{"lhs": p.symbol.fqn, "rhs": [s.fqn for s in p.rhs if s.name != "EMPTY"]} for p in g.productions]
        case["terms"] = [[t.fqn, _term_text(t)] for n, t in g.terminals.items() if n not in ("EMPTY", "STOP")]
        # helper rules of the sugar, identified by the documented suffix AND their structure; their names are not compared (the real helper
        # name follows the spelling of the reference, which differs from the base symbol's FQN on non-first import paths)
        by_lhs = {}
        for p in case["prods"][1:]:
            by_lhs.setdefault(p["lhs"], []).append(p["rhs"])
        helpers = {}
        for name, alts in by_lhs.items():
            k = helper_kind(name)
            if k == "collect" and sorted(map(len, alts)) == [1, 2]:
                helpers[name] = {"base": [a for a in alts if len(a) == 1][0][0], "mult": "+", "sep": ""}
            elif k == "collect_sep" and sorted(map(len, alts)) == [1, 3]:
                helpers[name] = {"base": [a for a in alts if len(a) == 1][0][0], "mult": "+", "sep": [a for a in alts if len(a) == 3][0][1]}
            elif k == "optional" and sorted(map(len, alts)) == [0, 1]:
                helpers[name] = {"base": [a for a in alts if len(a) == 1][0][0], "mult": "?", "sep": ""}
        for name, alts in by_lhs.items():
            if helper_kind(name) == "zero" and sorted(map(len, alts)) == [0, 1]:
                one = [a for a in alts if len(a) == 1][0][0]
                if one in helpers:
                    helpers[name] = {"base": helpers[one]["base"], "mult": "*", "sep": helpers[one]["sep"]}
        case["helpers"] = helpers
        # named matches: positions projected from the loaded productions (trusted); a rule with named matches builds an object by default
        case["assign"] = [sorted([{"name": a.name, "op": a.op, "idx": a.index + 1} for a in (p.assignments or {}).values()], key=lambda x: x["name"]) for p in g.productions]
        has_assign = {p.symbol.fqn for p in g.productions if p.assignments}
        case["akind"] = {nt.fqn: (job.get("actions", {}).get(nt.fqn) or helper_kind(nt.fqn) or ("obj" if nt.fqn in has_assign else "none")) for nt in g.nonterminals.values()}
        texts = sorted({t[1] for t in case["terms"]})
        rng = random.Random(job["seed"])
        words = [list(w) for n in range(1, 3) for w in itertools.product(texts, repeat=n)]
        if len(words) > 40:
            words = rng.sample(words, 40)
        words += _sentences(case["prods"], dict((t[0], t[1]) for t in case["terms"]), rng)
        seen = set()
        # the same token sequences with two neighbours GLUED together (no layout between them): not token sequences of the chart reference any
        # more, judged parser against parser only
        glued = []
        for toks in words[::3]:
            if len(toks) >= 2:
                k = rng.randrange(len(toks) - 1)
                glued.append(toks[:k] + [toks[k] + toks[k + 1]] + toks[k + 2:] + ["<glued>"])
        for toks in words + glued:
            is_glued = bool(toks) and toks[-1] == "<glued>"
            if is_glued:
                toks = toks[:-1]
            if (tuple(toks), is_glued) in seen or len(toks) > 8:
                continue
            seen.add((tuple(toks), is_glued))
            e = {"toks": toks, "glued": is_glued, "ok": False, "complete": True, "trees": [], "results": [], "raised": "", "hasflat": False, "okflat": False}
            if flat is not None:
                try:
                    with real.guard(8), real.quiet():
                        flat.parse(" ".join(toks))
                    e.update(hasflat=True, okflat=True)
                except real.parglare.SyntaxError:
                    e.update(hasflat=True, okflat=False)
                except Exception:  # noqa: BLE001
                    pass
            try:
                with real.guard(8), real.quiet():
                    f = parser.parse(" ".join(toks))
                    try:
                        n = real.flen(f)
                    except real.LoopError:
                        n = 10**6
                    k = min(n, 6)
                    e.update(ok=True, complete=n <= 6, trees=[_dump(f.get_nonlazy_tree(i)) for i in range(k)] if n < 10**6 else [],
                             results=[tagval(parser.call_actions(f[i])) for i in range(k)] if n < 10**6 else [])
            except real.parglare.SyntaxError:
                pass
            except real.Timeout:
                e["raised"] = "Timeout"
            except Exception as ex:  # noqa: BLE001
                e["raised"] = type(ex).__name__
            case["inputs"].append(e)
    finally:
        shutil.rmtree(d, ignore_errors=True)
    return [case]


def _term_text(t):
    """the text of a string terminal (also after the KEYWORD rewrite to \\b<text>\\b), '/regex/' for a regex terminal"""
    import re as _re

    rec = t.recognizer
    if hasattr(rec, "value"):
        return rec.value
    rx = getattr(rec, "_regex", "?")
    if getattr(t, "keyword", False) and rx.startswith("\\b") and rx.endswith("\\b"):
        return _re.sub(r"\\(.)", r"\1", rx[2:-2])
    return "/%s/" % rx


def _flat_parser(real, g):
    """GLRParser for the SINGLE-FILE grammar made of the real grammar's own productions (same order, qualified names spelled with '__'
    instead of '.', every terminal declared with its recognizer).  ImportCheck.tla proves these productions equal to Imports!Flatten, so
    this is 'the single-file grammar obtained by inlining all rules under their qualified names' the statement compares the parser with."""
    import re as _re

    def nm(sym):
        return ("T_" if isinstance(sym, real.parglare.grammar.Terminal) else "N_") + _re.sub(r"\W", "_", sym.fqn.replace(".", "__"))
    try:
        names = {}
        for sym in list(g.nonterminals.values()) + [t for n, t in g.terminals.items() if n not in ("EMPTY", "STOP")]:
            names.setdefault(nm(sym), set()).add(sym.fqn)
        if any(len(v) > 1 for v in names.values()):
            return None
        by, order = {}, []
        for p in g.productions[1:]:
            k = nm(p.symbol)
            if k not in by:
                by[k] = []
                order.append(k)
            by[k].append(" ".join(nm(x) for x in p.rhs if x.name != "EMPTY") or "EMPTY")
        start = nm(g.productions[0].rhs[0])
        order.remove(start)
        text = "".join("%s: %s;\n" % (k, " | ".join(by[k])) for k in [start] + order)
        used = {x.fqn for p in g.productions[1:] for x in p.rhs}
        terms = [t for n, t in g.terminals.items() if n not in ("EMPTY", "STOP") and t.fqn in used]
        kw = g.terminals.get("KEYWORD")
        if terms or kw is not None:
            text += "terminals\n" + "".join("%s: %s;\n" % (nm(t), _tdecl(t)) for t in terms)
            if kw is not None:
                text += "KEYWORD: /%s/;\n" % kw.recognizer._regex
        with real.guard(20), real.quiet():
            return real.GLRParser(real.Grammar.from_string(text))
    except Exception:  # noqa: BLE001
        return None


def _tdecl(t):
    v = _term_text(t)
    return '"%s"' % v.replace("\\", "\\\\").replace('"', '\\"')


def _dump(n):
    t = dump_tree(n)
    return t


def _sentences(prods, termtext, rng, n=10):
    """random derivations over the REAL productions (input generation only; nothing is judged here)"""
    by = {}
    for p in prods[1:]:
        by.setdefault(p["lhs"], []).append(p["rhs"])
    start = prods[0]["rhs"][0]
    out = []
    for _ in range(n * 4):
        toks, ok = [], True
        stack = [(start, 0)]
        while stack and ok:
            sym, depth = stack.pop()
            if sym in termtext:
                toks.append(termtext[sym])
            elif sym in by:
                alts = by[sym]
                if depth > 4:
                    alts = sorted(alts, key=len)[:1]
                rhs = rng.choice(alts)
                for s in reversed(rhs):
                    stack.append((s, depth + 1))
            else:
                ok = False
            if len(toks) > 8:
                ok = False
        if ok and toks:
            out.append(toks)
        if len(out) >= n:
            break
    return out


def _jobs(tier, seed):
    p = PARAMS[tier]
    rng = random.Random(2020)
    rng2 = random.Random(14000029 * (seed + 1))
    jobs = []
    names = sorted(SHAPES)
    for i in range(p["n"]):
        r = rng if i % 4 else rng2
        shape = names[i % len(names)]
        ov, su, al = r.random() < 0.35, r.random() < 0.5, r.random() < 0.6
        files = gen_case(r, shape, ov, su, al)
        dl = (i // len(names)) % len(DIRS)
        jobs.append({"name": "%s#%d%s%s%s%s" % (shape, i, " override" if ov else "", " sugar" if su else "", " alias" if al else "", " dirs%d" % dl if dl else ""),
                     "files": files, "origin": "det" if i % 4 else "rand", "seed": r.randrange(1 << 30), "shape": shape, "override": ov, "dirs": dl})
    # directed templates: the same local rule name under repetition sugar in two imported files (alternative numbering of helper rules per symbol)
    def ref(parts, mult=""):
        return {"kind": "ref", "parts": parts, "mult": mult, "sep": []}

    def st(t):
        return {"kind": "str", "text": t}
    for k, (m1, m2) in enumerate([("+", "+"), ("*", "+"), ("+", "?"), ("*", "*")]):
        files = {"root": {"imports": [{"alias": "base", "target": "base"}, {"alias": "mid", "target": "mid"}],
                          "rules": [{"name": ["S"], "alts": [[st("go"), ref(["base", "L"], m1), st("then"), ref(["mid", "L"], m2)], [ref(["mid", "L"], m2), st("only")]]}], "terms": []},
                 "base": {"imports": [], "rules": [{"name": ["L"], "alts": [[st("b1")], [st("b2"), ref(["L"])]]}], "terms": []},
                 "mid": {"imports": [], "rules": [{"name": ["L"], "alts": [[st("m1")], [st("m2")]]}], "terms": []}}
        if k % 2:
            # the same local rule name with an explicit built-in list action (@collect) in both files
            for fn, t in (("base", "b"), ("mid", "m")):
                files[fn]["rules"] = [{"name": ["L"], "action": "collect", "alts": [[ref(["L"]), ref(["E"])], [ref(["E"])]]},
                                      {"name": ["E"], "alts": [[st(t + "1")], [st(t + "2")]]}]
        for dl in (0, 1):
            jobs.append({"name": "template-same-local-name#%d%s" % (k, " dirs%d" % dl if dl else ""), "actions": {"base.L": "collect", "mid.L": "collect"} if k % 2 else {}, "files": files, "origin": "det", "seed": 77 + k, "shape": "tree3",
                         "override": False, "dirs": dl})
    # directed template (finding D32): the same base symbol repeated with separators that have the same local name in two files
    def refs(parts, mult, sep):
        return {"kind": "ref", "parts": parts, "mult": mult, "sep": sep}
    for k, (m1, m2) in enumerate([("+", "+"), ("*", "+"), ("+", "*")]):
        files = {"root": {"imports": [{"alias": "base", "target": "base"}],
                          "rules": [{"name": ["S"], "alts": [[refs(["base", "L"], m1, ["TT"]), st("x"), ref(["base", "X"])]]}], "terms": [{"name": "TT", "text": "u0"}]},
                 "base": {"imports": [], "rules": [{"name": ["X"], "alts": [[refs(["L"], m2, ["TT"])]]}, {"name": ["L"], "alts": [[st("b1")]]}], "terms": [{"name": "TT", "text": "u1"}]}}
        jobs.append({"name": "template-separator-local-name#%d" % k, "files": files, "origin": "det", "seed": 90 + k, "shape": "chain2", "override": False, "dirs": 0})
    return jobs


def judge(cases, tag_="imp"):
    paths = tlcrun.write_shards(cases, scratch() + "/" + tag_, max_bytes=2_500_000, min_shards=8)
    rs = tlcrun.run_shards("ImportCheck", "ImportCheck.cfg", paths, procs=4, workers=4)
    per = {}
    for r in rs:
        for v in r.verdicts:
            per.setdefault(v[1], []).append((v[2], sorted(v[3])))
    casev = {v[1]: v for r in rs for v in tlcrun.extract_tuples(r.out, "CASE")}
    out = []
    for i, c in enumerate(cases):
        ins = [{"toks": c["inputs"][iid - 1]["toks"], "clauses": cl, "ok": c["inputs"][iid - 1]["ok"], "raised": c["inputs"][iid - 1]["raised"]} for iid, cl in per.get(i, [])]
        if c["built"] and len(ins) != len(c["inputs"]):
            raise tlcrun.MachineryFailure("ImportCheck: case %d has %d inputs but %d verdicts" % (i, len(c["inputs"]), len(ins)))
        out.append({"name": c["name"], "origin": c["origin"], "built": c["built"], "err": c["err"], "texts": c["texts"],
                    "case_clauses": sorted(casev[i][2]) if i in casev else [], "facts": sorted(casev[i][3]) if i in casev else [], "inputs": ins, "nfiles": len(c["files"])})
    return out, {"states": sum(r.distinct for r in rs), "generated": sum(r.generated for r in rs)}


def build(tier, seed):
    t = Timer()
    cases = pool.flatten(pool.run_jobs("stage_imp", "worker", _jobs(tier, seed), chunksize=4))
    log("import corpus: %d file sets, %d inputs in %.1fs" % (len(cases), sum(len(c["inputs"]) for c in cases), t.s()))
    out, stats = judge(cases)
    log("import corpus judged in %.1fs" % t.s())
    return {"cases": out, "stats": stats}


def get(tier, seed):
    return stage.cached("imp-" + tier, {"tier": tier, "seed": seed, "params": PARAMS[tier]}, lambda: build(tier, seed))
