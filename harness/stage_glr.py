"""The recorded GLR corpus, judged by TLC (GLRCheck.tla final-state clauses + GSSTrace.tla trace
validation).  Shared by C01, C02, C03, C08 (forest positions), C17.

Corpus parts (DESIGN 7 'common vocabulary', 8):
  det      witnesses + fixed-seed sample of F(3,3) x all inputs <= n tokens, LALR and SLR
  layout   the same grammars, a few inputs rendered with layout patterns
  overlap  fixed-seed random grammars over lexically overlapping terminals, character inputs
  prefix   consume_input=False on acyclic grammars (C17)
  rand     VERIF_SEED-dependent random larger grammars and longer inputs
Only `rand` depends on VERIF_SEED; everything else is explored identically on every run so that
the known-finding witness lists are exact (DESIGN 5).
"""
import itertools
import random

from . import gen, pool, stage, tlcrun
from .common import log, scratch, Timer

PARAMS = {
    "quick": dict(nfam=420, n=3, smax=6, nover=90, nrand=60, nprefix=150, rand_len=6),
    "thorough": dict(nfam=6000, n=4, smax=8, nover=1200, nrand=1500, nprefix=1500, rand_len=8),
}


def _inputs_plain(g, p, rng):
    """all token strings <= n, plus sentences up to smax tokens and single-edit corruptions of them"""
    return ["".join(w) for w in gen.directed_inputs(g, rng, n_all=p["n"], maxlen=p["smax"])]


def _jobs(tier, seed):
    p = PARAMS[tier]
    jobs = []
    fam = gen.WITNESSES + gen.family(3, 3, limit=p["nfam"]) + gen.family(4, 2, limit=p["nfam"] // 3, rng_seed=77) + \
        gen.family(5, 3, nts=("S", "A", "B"), terms=gen.PLAIN_TERMS[:2], limit=p["nfam"] // 2, rng_seed=78, sizes=(4, 5))
    rng = random.Random(1234)
    for i, g in enumerate(fam):
        jobs.append({"g": g, "inputs": _inputs_plain(g, p, rng), "tables": ["LALR", "SLR"] if i % 2 == 0 else ["LALR"], "origin": "det", "variant": "plain"})
    # nullable-heavy shapes over ONE terminal (right-nulled rules sharing a prefix, hidden recursion): where revisits and limited re-reductions matter
    one = [("a", "str", "a")]
    nh = [g for g in gen.family(4, 3, nts=("S", "A"), terms=one, limit=p["nfam"] * 3, rng_seed=79, sizes=(3, 4))
          if any(not rhs for _, rhs in g["prods"]) and not gen.cyclic(g["prods"], ["a"])][: p["nfam"] // 2]
    for g in nh:
        jobs.append({"g": g, "inputs": ["a" * n for n in range(0, p["smax"] + 2)], "tables": ["LALR"], "origin": "det", "variant": "nullable1"})
    rng = random.Random(4242)
    for g in fam[:: 3]:
        alpha = [t[2] for t in g["terms"]]
        words = [w for w in gen.token_strings(alpha, p["n"] + 1, 1)]
        pick = rng.sample(words, min(6, len(words)))
        inputs = [gen.render(w, rng.choice(gen.LAYOUTS[1:])) for w in pick] + ["  ", "\n"]
        jobs.append({"g": g, "inputs": inputs, "tables": ["LALR"], "origin": "det", "variant": "layout"})
    # lexical overlap
    rng = random.Random(9001)
    k = 0
    while k < p["nover"]:
        g = gen.random_grammar(rng, nts=("S", "A"), term_pool=gen.OVERLAP_TERMS, nterm=(2, 3), nprod=(2, 4))
        if g is None:
            continue
        k += 1
        chars = "ab"
        inputs = []
        for n in range(1, 5):
            for w in itertools.product(chars, repeat=n):
                w = "".join(w)
                inputs.append(w)
        inputs += [" ".join(w) + " " for w in rng.sample(inputs, 6)]
        jobs.append({"g": g, "inputs": inputs, "tables": ["LALR"], "origin": "det", "variant": "overlap"})
    # consume_input = False (C17), acyclic grammars only
    acyc = [g for g in fam if not gen.cyclic(g["prods"], [t[0] for t in g["terms"]])]
    rng = random.Random(4343)
    for i, g in enumerate(acyc[: p["nprefix"]]):
        jobs.append({"g": g, "inputs": _inputs_plain(g, p, rng), "tables": ["LALR"], "consume": False, "origin": "det", "variant": "prefix", "pretable": i % 3 == 2})
    # seeded random extension
    rng = random.Random(1000003 * (seed + 1))
    k = 0
    while k < p["nrand"]:
        pool_ = gen.PLAIN_TERMS if rng.random() < 0.6 else gen.OVERLAP_TERMS
        g = gen.random_grammar(rng, term_pool=pool_, nprod=(3, 6))
        if g is None:
            continue
        k += 1
        alpha = [t[2] for t in g["terms"]] if pool_ is gen.PLAIN_TERMS else ["a", "b"]
        inputs = set()
        for _ in range(24):
            w = [rng.choice(alpha) for _ in range(rng.randint(0, p["rand_len"]))]
            inputs.add(gen.render(w, rng.choice(["none", "none", "spaces", "mixed"])))
        jobs.append({"g": g, "inputs": sorted(inputs), "tables": [rng.choice(["LALR", "SLR"])], "origin": "rand",
                     "variant": "rand", "consume": rng.random() < 0.8})
    for j in jobs:
        j["sample_trees"] = 0
    return jobs


def worker(job):
    from . import corpus_glr

    cases = corpus_glr.grammar_cases(job)
    for c in cases:
        c["origin"] = job["origin"]
        c["variant"] = job["variant"]
    return cases


def judge(cases, tag="glr"):
    """Run GLRCheck and GSSTrace over recorded cases; return (summaries, stats)."""
    built = [c for c in cases if "build_error" not in c]
    paths = tlcrun.write_shards(built, scratch() + "/" + tag, max_bytes=3_000_000, min_shards=8)
    r1 = tlcrun.run_shards("GLRCheck", "GLRCheck.cfg", paths, procs=4, workers=4)
    r2 = tlcrun.run_shards("GSSTrace", "GSSTrace.cfg", paths, procs=4, workers=4, tag="TRACE")
    v1 = {v[1]: v for r in r1 for v in r.verdicts}
    v2 = {v[1]: v for r in r2 for v in r.verdicts}
    if len(v1) != len(built) or len(v2) != len(built):
        raise tlcrun.MachineryFailure("verdict count mismatch: %d cases, %d final-state verdicts, %d trace verdicts" % (len(built), len(v1), len(v2)))
    out = []
    for i, c in enumerate(built):
        a, b = v1[i], v2[i]
        out.append({
            "name": c["name"], "origin": c["origin"], "variant": c["variant"], "gtext": c["gtext"], "tables": c["tables"],
            "input": c["input"], "consume": c["consume"], "kind": c["res"]["kind"], "exc": c["res"].get("exc"),
            "clauses": sorted(a[2]), "info": a[3], "flags": a[4],
            "trace": b[2], "trace_at": b[3], "diag": sorted(b[4]), "nred": b[5], "nev": len(c["trace"]),
        })
    stats = {
        "states": sum(r.distinct for r in r1 + r2), "generated": sum(r.generated for r in r1 + r2),
        "build_errors": [{"name": c["name"], "err": c["build_error"]} for c in cases if "build_error" in c],
    }
    return out, stats


def build(tier, seed):
    t = Timer()
    jobs = _jobs(tier, seed)
    cases = pool.flatten(pool.run_jobs("stage_glr", "worker", jobs))
    log("glr corpus: %d jobs, %d cases recorded in %.1fs" % (len(jobs), len(cases), t.s()))
    out, stats = judge(cases)
    stats["record_s"] = t.s()
    log("glr corpus judged in %.1fs" % t.s())
    return {"cases": out, "stats": stats}


def get(tier, seed):
    return stage.cached("glr-" + tier, {"tier": tier, "seed": seed, "params": PARAMS[tier]}, lambda: build(tier, seed))


def judge_replay(rc):
    """Re-run one recorded case (replay file) through the real code and TLC."""
    from . import corpus_glr, real

    real.init_worker()
    parser, err = real.build("glr", rc["gtext"], tables=rc["tables"], consume_input=rc["consume"])
    if parser is None:
        raise tlcrun.MachineryFailure("replay: parser does not build: %s" % err)
    c = corpus_glr.record_case(parser, rc["input"], "\n\r\t ", consume=rc["consume"])
    c.update({"gtext": rc["gtext"], "tables": rc["tables"], "prods": real.prods_json(parser.grammar),
              "terms": real.term_names(parser.grammar), "tbl": real.table_json(parser), "name": rc["name"],
              "origin": "replay", "variant": "replay"})
    out, _ = judge([c], tag="replay")
    return out
