"""The recorded GLR corpus, judged by TLC (GLRCheck.tla final-state clauses + GSSTrace.tla trace
validation).  Shared by C01, C02, C03, C08 (forest positions), C17.

Corpus parts (DESIGN 7 'common vocabulary', 8):
  det      witnesses + fixed-seed sample of F(3,3) x all inputs <= n tokens, LALR and SLR
  layout   the same grammars, a few inputs rendered with layout patterns
  overlap  fixed-seed random grammars over lexically overlapping terminals, character inputs
  prefix   consume_input=False on acyclic grammars (C17)
  rand     VERIF_SEED-dependent random larger grammars and longer inputs
Only `rand` depends on VERIF_SEED; everything else is explored identically on every run so that
the known-finding witness lists are exact (DESIGN 5).
"""
import itertools
import random

from . import gen, pool, stage, tlcrun
from .common import log, scratch, Timer

PARAMS = {
    "quick": dict(nfam=420, n=3, smax=6, nover=90, nrand=60, nprefix=150, rand_len=6, nlexamb=160, lexlen=5, nidiom=120, noverprefix=80, nlexseq=160, neps=110),
    "thorough": dict(nfam=3000, n=4, smax=8, nover=1200, nrand=1500, nprefix=1500, rand_len=8, nlexamb=10**9, lexlen=7, nidiom=None, noverprefix=900, nlexseq=None, neps=None),
}


def _inputs_plain(g, p, rng):
    """all token strings <= n, plus sentences up to smax tokens and single-edit corruptions of them"""
    return ["".join(w) for w in gen.directed_inputs(g, rng, n_all=p["n"], maxlen=p["smax"])]


def _jobs(tier, seed):
    p = PARAMS[tier]
    jobs = []
    fam = gen.WITNESSES + gen.family(3, 3, limit=p["nfam"]) + gen.family(4, 2, limit=p["nfam"] // 3, rng_seed=77) + \
        gen.family(5, 3, nts=("S", "A", "B"), terms=gen.PLAIN_TERMS[:2], limit=p["nfam"] // 2, rng_seed=78, sizes=(4, 5))
    rng = random.Random(1234)
    for i, g in enumerate(fam):
        jobs.append({"g": g, "inputs": _inputs_plain(g, p, rng), "tables": ["LALR", "SLR"] if i % 2 == 0 else ["LALR"], "origin": "det", "variant": "plain"})
    # nullable-heavy shapes over ONE terminal (right-nulled rules sharing a prefix, hidden recursion): where revisits and limited re-reductions matter
    one = [("a", "str", "a")]
    nh = [g for g in gen.family(4, 3, nts=("S", "A"), terms=one, limit=p["nfam"] * 3, rng_seed=79, sizes=(3, 4))
          if any(not rhs for _, rhs in g["prods"]) and not gen.cyclic(g["prods"], ["a"])][: p["nfam"] // 2]
    for g in nh:
        jobs.append({"g": g, "inputs": ["a" * n for n in range(0, p["smax"] + 2)], "tables": ["LALR"], "origin": "det", "variant": "nullable1"})
    rng = random.Random(4242)
    for g in fam[:: 3]:
        alpha = [t[2] for t in g["terms"]]
        words = [w for w in gen.token_strings(alpha, p["n"] + 1, 1)]
        pick = rng.sample(words, min(6, len(words)))
        inputs = [gen.render(w, rng.choice(gen.LAYOUTS[1:])) for w in pick] + ["  ", "\n"]
        jobs.append({"g": g, "inputs": inputs, "tables": ["LALR"], "origin": "det", "variant": "layout"})
    # the same layout, written as a LAYOUT rule (a second table built from the same Grammar object first: the layout parser's), SLR too
    rng = random.Random(4244)
    for g in fam[1:: 5]:
        words = gen.directed_inputs(g, rng, n_all=1, maxlen=p["smax"], n_sent=7, n_mut=2)
        inputs = sorted({gen.render(w, rng.choice(gen.LAYOUTS)) for w in words})
        g2 = {"prods": g["prods"], "terms": g["terms"] + [("WS_", "re", "\\s+")]}
        jobs.append({"g": g2, "inputs": inputs, "tables": ["SLR", "LALR"], "origin": "det", "variant": "layoutrule",
                     "extra": "LAYOUT: LayoutItem_*;\nLayoutItem_: WS_;\n"})
    # lexical overlap
    rng = random.Random(9001)
    k = 0
    while k < p["nover"]:
        g = gen.random_grammar(rng, nts=("S", "A"), term_pool=gen.OVERLAP_TERMS, nterm=(2, 3), nprod=(2, 4))
        if g is None:
            continue
        k += 1
        chars = "ab"
        inputs = []
        for n in range(1, 5):
            for w in itertools.product(chars, repeat=n):
                w = "".join(w)
                inputs.append(w)
        inputs += [" ".join(w) + " " for w in rng.sample(inputs, 6)]
        jobs.append({"g": g, "inputs": inputs, "tables": ["LALR", "SLR"] if k % 3 == 0 else ["LALR"], "origin": "det", "variant": "overlap"})
    # lexical ambiguity between tokens of DIFFERENT length ("a" vs "aa" [vs "aaa"]): shifts deferred to a later round, heads in one
    # state at different positions (finding D23: GSS node ids collided).  All grammars of F(3,2) that use both terminals.
    for terms, tag, lim in ((gen.OVERLAP_TERMS[:2], "lexamb", p["nlexamb"]), (gen.OVERLAP_TERMS[:2] + [("t8", "str", "aaa")], "lexamb3", p["nlexamb"] // 2)):
        tn = {t[0] for t in terms}
        fam2 = [g for g in gen.family(3, 2, terms=terms, limit=None if len(terms) == 2 else 4000, rng_seed=81)
                if {s for _, rhs in g["prods"] for s in rhs} >= tn]
        wit = [g for g in gen.LEXAMB_WITNESSES if {t[0] for t in g["terms"]} == tn]
        rng = random.Random(8181)
        if len(fam2) > lim:
            fam2 = rng.sample(fam2, lim)
        for g in wit + fam2:
            jobs.append({"g": g, "inputs": ["a" * n for n in range(1, p["lexlen"] + 1)], "tables": ["LALR", "SLR"] if len(jobs) % 4 == 0 else ["LALR"], "origin": "det", "variant": tag})
    # hand-written list / optional idioms in sequence (gen.idiom_family)
    rng = random.Random(8282)
    for i, g in enumerate(gen.idiom_family(limit=p["nidiom"], rng_seed=4713)):
        words = gen.directed_inputs(g, rng, n_all=2, maxlen=p["smax"], n_sent=10, n_mut=5)
        inputs = sorted({gen.render(w, "spaces" if "," in w else rng.choice(["none", "none", "spaces"])) for w in words})
        jobs.append({"g": g, "inputs": inputs, "tables": ["LALR", "SLR"] if i % 3 == 0 else ["LALR"], "origin": "det", "variant": "idiom"})
    # lookahead propagation through chains of nullable nonterminals (gen.epschain_family)
    rng = random.Random(8383)
    for g in gen.epschain_family(limit=p["neps"], rng_seed=4771):
        words = gen.directed_inputs(g, rng, n_all=3 if len(g["terms"]) < 3 else 2, maxlen=5, n_sent=8, n_mut=3)
        jobs.append({"g": g, "inputs": sorted({"".join(w) for w in words}), "tables": ["LALR"], "origin": "det", "variant": "epschain"})
    for g in gen.REJECT_WITNESSES:
        jobs.append({"g": g, "inputs": [g["terms"][0][2] * n for n in range(0, 5)], "tables": ["LALR", "SLR"], "origin": "det", "variant": "plain"})
    # consume_input = False (C17), acyclic grammars only
    acyc = [g for g in fam if not gen.cyclic(g["prods"], [t[0] for t in g["terms"]])]
    rng = random.Random(4343)
    for i, g in enumerate(acyc[: p["nprefix"]]):
        jobs.append({"g": g, "inputs": _inputs_plain(g, p, rng), "tables": ["LALR"], "consume": False, "origin": "det", "variant": "prefix", "pretable": i % 3 == 2})
        if i % 4 == 1:
            # lexical_disambiguation on (C17's quantifier): without lexical overlap it must change nothing
            jobs.append({"g": g, "inputs": jobs[-1]["inputs"], "tables": ["LALR"], "consume": False, "origin": "det", "variant": "prefix-ld1",
                         "opts": {"lexical_disambiguation": True}})
    # consume_input = False under lexical overlap: a longer token is still pending while a shorter prefix is already accepted
    # (round-2 seeded change C17-c: the main loop stopped as soon as no head could scan and something was accepted)
    rng = random.Random(9002)
    k = 0
    while k < p["noverprefix"]:
        g = gen.random_grammar(rng, nts=("S", "A"), term_pool=gen.OVERLAP_TERMS, nterm=(2, 3), nprod=(2, 4))
        if g is None or gen.cyclic(g["prods"], [t[0] for t in g["terms"]]):
            continue
        k += 1
        inputs = ["".join(w) for n in range(1, 5) for w in itertools.product("ab", repeat=n)]
        jobs.append({"g": g, "inputs": inputs, "tables": ["LALR"], "consume": False, "origin": "det", "variant": "overlap-prefix"})
    for i, g in enumerate(gen.lexseq_family(limit=p["nlexseq"])):
        inputs = ["".join(w) for n in range(1, 5) for w in itertools.product("ab", repeat=n)] + ["aaaaa", "aaaab", "aabaa"]
        jobs.append({"g": g, "inputs": inputs, "tables": ["LALR"], "consume": i % 4 == 3, "origin": "det", "variant": "lexseq" if i % 4 == 3 else "lexseq-prefix"})
    # seeded random extension
    rng = random.Random(1000003 * (seed + 1))
    k = 0
    while k < p["nrand"]:
        pool_ = gen.PLAIN_TERMS if rng.random() < 0.6 else gen.OVERLAP_TERMS
        g = gen.random_grammar(rng, term_pool=pool_, nprod=(3, 6))
        if g is None:
            continue
        k += 1
        alpha = [t[2] for t in g["terms"]] if pool_ is gen.PLAIN_TERMS else ["a", "b"]
        inputs = set()
        for _ in range(24):
            w = [rng.choice(alpha) for _ in range(rng.randint(0, p["rand_len"]))]
            inputs.add(gen.render(w, rng.choice(["none", "none", "spaces", "mixed"])))
        jobs.append({"g": g, "inputs": sorted(inputs), "tables": [rng.choice(["LALR", "SLR"])], "origin": "rand",
                     "variant": "rand", "consume": rng.random() < 0.8})
    for j in jobs:
        j["sample_trees"] = 0
    return jobs


def worker(job):
    from . import corpus_glr

    cases = corpus_glr.grammar_cases(job)
    for c in cases:
        c["origin"] = job["origin"]
        c["variant"] = job["variant"]
    return cases


def judge(cases, tag="glr"):
    """Run GLRCheck and GSSTrace over recorded cases; return (summaries, stats)."""
    built = [c for c in cases if "build_error" not in c]
    paths = tlcrun.write_shards(built, scratch() + "/" + tag, max_bytes=3_000_000, min_shards=8)
    r1 = tlcrun.run_shards("GLRCheck", "GLRCheck.cfg", paths, procs=4, workers=4)
    r2 = tlcrun.run_shards("GSSTrace", "GSSTrace.cfg", paths, procs=4, workers=4, tag="TRACE")
    v1 = {v[1]: v for r in r1 for v in r.verdicts}
    v2 = {v[1]: v for r in r2 for v in r.verdicts}
    for path in paths:
        try:
            import os
            os.unlink(path)
        except OSError:
            pass
    if len(v1) != len(built) or len(v2) != len(built):
        raise tlcrun.MachineryFailure("verdict count mismatch: %d cases, %d final-state verdicts, %d trace verdicts" % (len(built), len(v1), len(v2)))
    out = []
    for i, c in enumerate(built):
        a, b = v1[i], v2[i]
        out.append({
            "name": c["name"], "origin": c["origin"], "variant": c["variant"], "gtext": c["gtext"], "tables": c["tables"],
            "input": c["input"], "consume": c["consume"], "kind": c["res"]["kind"], "exc": c["res"].get("exc"),
            "clauses": sorted(a[2]), "info": a[3], "flags": a[4],
            "trace": b[2], "trace_at": b[3], "diag": sorted(b[4]), "nred": b[5], "nev": len(c["trace"]),
        })
    stats = {
        "states": sum(r.distinct for r in r1 + r2), "generated": sum(r.generated for r in r1 + r2),
        "build_errors": [{"name": c["name"], "err": c["build_error"]} for c in cases if "build_error" in c],
    }
    return out, stats


CHUNK_CASES = 60000  # cases recorded and judged at a time (bounds memory: a recorded case carries its whole event trace)


def build(tier, seed):
    t = Timer()
    jobs = _jobs(tier, seed)
    chunks, cur, n = [], [], 0
    for j in jobs:
        cur.append(j)
        n += len(j["inputs"]) * len(j.get("tables", ["LALR"]))
        if n >= CHUNK_CASES:
            chunks.append(cur)
            cur, n = [], 0
    if cur:
        chunks.append(cur)
    out, stats = [], {"states": 0, "generated": 0, "build_errors": []}
    for k, chunk in enumerate(chunks):
        cases = pool.flatten(pool.run_jobs("stage_glr", "worker", chunk))
        log("glr corpus %d/%d: %d jobs, %d cases recorded (%.1fs)" % (k + 1, len(chunks), len(chunk), len(cases), t.s()))
        o, st = judge(cases, tag="glr%d" % k)
        out += o
        for key in stats:
            stats[key] += st[key]
        del cases
    stats["record_s"] = t.s()
    log("glr corpus judged in %.1fs" % t.s())
    return {"cases": out, "stats": stats}


def get(tier, seed):
    return stage.cached("glr-" + tier, {"tier": tier, "seed": seed, "params": PARAMS[tier]}, lambda: build(tier, seed))


def ensure(tier, seed):
    stage.ensure("glr-" + tier, {"tier": tier, "seed": seed, "params": PARAMS[tier]}, lambda: build(tier, seed))


def judge_replay(rc):
    """Re-run one recorded case (replay file) through the real code and TLC."""
    from . import corpus_glr, real

    real.init_worker()
    parser, err = real.build("glr", rc["gtext"], tables=rc["tables"], consume_input=rc["consume"])
    if parser is None:
        raise tlcrun.MachineryFailure("replay: parser does not build: %s" % err)
    c = corpus_glr.record_case(parser, rc["input"], "\n\r\t ", consume=rc["consume"])
    c.update({"gtext": rc["gtext"], "tables": rc["tables"], "prods": real.prods_json(parser.grammar),
              "terms": real.term_names(parser.grammar), "tbl": real.table_json(parser), "name": rc["name"],
              "origin": "replay", "variant": "replay"})
    out, _ = judge([c], tag="replay")
    return out
