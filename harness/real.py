"""Worker-side code: runs the REAL parglare from /repo's working tree under guards and projects
what it did to JSON-able abstract state (DESIGN 4.1).  Imported only inside worker processes.

Guards: RLIMIT_AS and a per-call SIGALRM (LALR construction can diverge, parse can loop).
"""
import contextlib
import io
import os
import resource
import signal
import sys

from .common import GUARD, REPO

os.environ[GUARD] = "1"
if REPO not in sys.path:
    sys.path.insert(0, REPO)

import parglare  # noqa: E402
from parglare import GLRParser, Grammar, Parser  # noqa: E402
from parglare import _verif  # noqa: E402
from parglare.exceptions import LoopError  # noqa: E402
from parglare.tables import ACCEPT, REDUCE, SHIFT  # noqa: E402

assert os.path.realpath(parglare.__file__).startswith(os.path.realpath(REPO)), parglare.__file__
assert _verif.ON


class Timeout(Exception):
    pass


def _alarm(*_a):
    raise Timeout()


def init_worker(mem_gb=4):
    # The limit is on the address space, and a forked worker starts with its parent's: the allowance is counted from there (in the thorough
    # tier the parent holds gigabytes of judged cases when it forks the workers of a later chunk; with an absolute limit they started above
    # it and died in their first allocation -- "a worker process died").
    try:
        with open("/proc/self/statm") as f:
            base = int(f.read().split()[0]) * os.sysconf("SC_PAGE_SIZE")
    except (OSError, ValueError):
        base = 0
    lim = base + (mem_gb << 30)
    _soft, hard = resource.getrlimit(resource.RLIMIT_AS)
    # soft limit only, so that child processes (the JVM in replay mode) can lift it again
    resource.setrlimit(resource.RLIMIT_AS, (lim if hard == resource.RLIM_INFINITY else min(lim, hard), hard))
    signal.signal(signal.SIGALRM, _alarm)
    signal.signal(signal.SIGPROF, _alarm)
    sys.setrecursionlimit(10000)


@contextlib.contextmanager
def guard(seconds):
    """Bound a call into the real code by CPU time of this worker process (ITIMER_PROF), so that a busy machine cannot turn a fast call
    into a 'does not terminate' observation; a wall-clock alarm 20 times as long is the backstop for a call that blocks without computing."""
    signal.setitimer(signal.ITIMER_PROF, seconds)
    signal.alarm(int(seconds * 20))
    try:
        yield
    finally:
        signal.setitimer(signal.ITIMER_PROF, 0)
        signal.alarm(0)


@contextlib.contextmanager
def quiet():
    with contextlib.redirect_stdout(io.StringIO()):
        yield


TABLES = {"LALR": parglare.LALR, "SLR": parglare.SLR}


# ------------------------------------------------------------------ projections of public state
def prods_json(grammar):
    return [
        {"lhs": p.symbol.name, "rhs": [s.name for s in p.rhs if s.name != "EMPTY"]}
        for p in grammar.productions
    ]


def term_names(grammar):
    return [t for t in grammar.terminals if t not in ("EMPTY", "STOP")]


def action_json(a):
    if a.action == SHIFT:
        return {"a": "S", "to": a.state.state_id}
    if a.action == REDUCE:
        return {"a": "R", "p": a.prod.prod_id}
    return {"a": "A"}


def table_json(parser, kernels=False):
    out = []
    for s in parser.table.states:
        st = {
            "id": s.state_id,
            "sym": s.symbol.name,
            "actions": {k.name: [action_json(a) for a in v] for k, v in s.actions.items()},
            "gotos": {k.name: v.state_id for k, v in s.gotos.items()},
            "order": [k.name for k in s.actions],
            "finish": [bool(x) for x in s.finish_flags],
        }
        if kernels and s.items:
            st["kernel"] = sorted([i.production.prod_id, i.position] for i in s.kernel_items)
        out.append(st)
    return out


def skip_table(w, ws):
    """skip[p] = first position >= p not in ws (ws-based layout)."""
    n = len(w)
    sk = [0] * (n + 1)
    sk[n] = n
    for p in range(n - 1, -1, -1):
        sk[p] = sk[p + 1] if (ws and w[p] in ws) else p
    return sk


def match_table(grammar, w, names=None):
    """match[t][p] = length matched by terminal t's real recognizer at p (0 = no match)."""
    out = {}
    for name in names or term_names(grammar):
        t = grammar.terminals[name]
        row = []
        for p in range(len(w) + 1):
            m = None
            if p < len(w):
                try:
                    m = t.recognizer(w, p)
                except Exception:  # noqa: BLE001  (a recognizer that raises matches nothing here; what the PARSER does with it is observed by the run)
                    m = None
            if type(m) is tuple:
                m = m[0]
            row.append(len(m) if m else 0)
        out[name] = row
    return out


def dump_tree(n):
    """A tree (LR build_tree result, or one tree taken from a forest) as nested tagged records.
    (For list inputs a token's value is a list of one-character items; it is encoded like the text it spells.)"""
    s = -1 if n.start_position is None else n.start_position
    e = -1 if n.end_position is None else n.end_position
    lc = n.layout_content if isinstance(n.layout_content, str) else ""
    if n.is_term():
        return {"k": "T", "t": n.symbol.name, "s": s, "e": e, "l": [ord(c) for c in lc], "v": [ord(c[0]) for c in n.value]}
    return {"k": "N", "p": n.production.prod_id, "s": s, "e": e, "l": [ord(c) for c in lc], "c": [dump_tree(c) for c in n]}


def tree_key(n):
    if n.is_term():
        return ("T", n.symbol.name, n.start_position, n.end_position)
    return ("N", n.production.prod_id, n.start_position, n.end_position, tuple(tree_key(c) for c in n))


def export_forest(forest):
    """The packed forest as seen through Forest.result: symbol nodes (Parent) with the
    *sequence* of their alternatives (multiplicity kept)."""
    from parglare.glr import Parent

    ids, nodes = {}, []

    def nid(p):
        k = id(p)
        if k in ids:
            return ids[k]
        ids[k] = len(nodes) + 1
        nodes.append(None)
        idx = ids[k]
        alts = []
        for a in p.possibilities:
            if a.is_term():
                alts.append({"k": "T", "t": a.symbol.name, "s": a.start_position, "e": a.end_position, "n": len(a.value)})
            else:
                kids = [nid(c) if isinstance(c, Parent) else -1 for c in a.children]
                alts.append({"k": "N", "p": a.production.prod_id, "s": a.start_position, "e": a.end_position, "c": kids})
        nodes[idx - 1] = {"s": p.start_position, "e": p.end_position, "alts": alts}
        return idx

    root = nid(forest.result)
    return {"root": root, "nodes": nodes}


def flen(forest):
    """len(forest); more trees than sys.maxsize cannot be reported by len() (OverflowError is Python's, not parglare's): Forest.solutions then"""
    try:
        return len(forest)
    except OverflowError:
        return forest.solutions


def capped_int(n, cap=1000000):
    return min(int(n), cap)


PRIMES = [32749, 32719, 32717, 32713]


def residues(n):
    return [int(n) % p for p in PRIMES]


def build(kind, gtext_or_grammar, timeout=5, **opts):
    """Build a parser under guard.  Returns (parser, None) or (None, 'ExcName: msg')."""
    try:
        with guard(timeout), quiet():
            g = Grammar.from_string(gtext_or_grammar) if isinstance(gtext_or_grammar, str) else gtext_or_grammar
            if "tables" in opts and isinstance(opts["tables"], str):
                opts["tables"] = TABLES[opts["tables"]]
            cls = GLRParser if kind == "glr" else Parser
            return cls(g, **opts), None
    except Timeout:
        return None, "Timeout"
    except MemoryError:
        return None, "MemoryError"
    except Exception as e:  # noqa: BLE001
        return None, "%s: %s" % (type(e).__name__, str(e)[:200])


def exc_json(e, w):
    d = {"cls": type(e).__name__}
    loc = getattr(e, "location", None)
    if loc is not None:
        d["pos"] = loc.start_position if loc.start_position is not None else -1
        d["endpos"] = loc.end_position if getattr(loc, "end_position", None) is not None else -1
        d["line"] = loc.line if loc.line is not None else -1
        d["col"] = loc.column if loc.column is not None else -1
    if isinstance(e, parglare.SyntaxError):
        d["exp"] = sorted(s.name for s in (e.symbols_expected or []))
        d["ahead"] = sorted(t.symbol.name for t in (e.tokens_ahead or []))
        try:
            d["str"] = str(e)
            d["str_ok"] = True
        except Exception as e2:  # noqa: BLE001
            d["str"] = "%s" % type(e2).__name__
            d["str_ok"] = False
    return d


__all__ = [name for name in dir() if not name.startswith("_")] + ["LoopError", "ACCEPT"]
