"""Shared paths, environment handling and small utilities of the verification harness.

Python here is recorder / replayer / process manager only.  No property verdict is
computed in this package: verdicts are TLA+ values printed by TLC (see tlcrun.py).
"""
import hashlib
import json
import os
import shutil
import sys
import tempfile
import time

VERIF = os.path.dirname(os.path.dirname(os.path.abspath(__file__)))
REPO = os.environ.get("VERIF_REPO", "/repo")
SPEC = os.path.join(VERIF, "spec")
EVIDENCE = os.path.join(VERIF, "evidence")
REPLAYS = os.path.join(VERIF, "replays")
PY = "/venv/bin/python"
GUARD = "PARGLARE_VERIF"

EXIT_OK, EXIT_VIOLATION, EXIT_MACHINERY = 0, 1, 2


class MachineryFailure(Exception):
    """Something in the harness / TLC plumbing failed.  Never a property verdict."""


def seed():
    try:
        return int(os.environ.get("VERIF_SEED", "0"))
    except ValueError:
        return 0


def tier(default="quick"):
    t = os.environ.get("VERIF_TIER", default)
    return t if t in ("quick", "thorough") else default


_scratch = None


def scratch():
    """Per-run scratch directory outside /repo and /verif, removed at exit."""
    global _scratch
    if _scratch is None:
        base = os.environ.get("TMPDIR", "/tmp")
        _scratch = tempfile.mkdtemp(prefix="pgverif-", dir=base)
        import atexit

        atexit.register(lambda: shutil.rmtree(_scratch, ignore_errors=True))
    return _scratch


def repo_fingerprint():
    """sha256 over the library sources the checks execute (current working tree)."""
    h = hashlib.sha256()
    root = os.path.join(REPO, "parglare")
    for d, _dirs, files in sorted(os.walk(root)):
        for f in sorted(files):
            if f.endswith((".py", ".pg")):
                p = os.path.join(d, f)
                h.update(p.encode())
                with open(p, "rb") as fh:
                    h.update(fh.read())
    return h.hexdigest()


def write_json(path, obj):
    os.makedirs(os.path.dirname(path), exist_ok=True)
    tmp = path + ".tmp%d" % os.getpid()
    with open(tmp, "w") as f:
        json.dump(obj, f, indent=1, sort_keys=True, default=str)
    os.replace(tmp, path)


def codes(s):
    """Text as a list of code points (TLC has no characters; see DESIGN 11)."""
    return [ord(c) for c in s]


class Timer:
    def __init__(self):
        self.t0 = time.time()

    def s(self):
        return round(time.time() - self.t0, 2)


def log(*a):
    print(*a, file=sys.stderr, flush=True)
