"""Property id -> check function."""
from . import props_act, props_cache, props_det, props_filter, props_glr, props_imp, props_layout, props_lex, props_life, props_lr, props_prec, props_rec, props_str, props_sugar, props_tbl

CHECKS = {
    "C01": props_glr.c01,
    "C02": props_glr.c02,
    "C03": props_glr.c03,
    "C04": props_lr.c04,
    "C05": props_tbl.c05,
    "C06": props_prec.c06,
    "C07": props_lex.c07,
    "C08": props_lr.c08,
    "C10": props_lr.c10,
    "C17": props_glr.c17,
    "C09": props_act.c09,
    "C11": props_rec.c11,
    "C12": props_cache.c12,
    "C13": props_sugar.c13,
    "C14": props_layout.c14,
    "C15": props_life.c15,
    "C16": props_det.c16,
    "C18": props_filter.c18,
    "C19": props_str.c19,
    "C20": props_imp.c20,
}

# checks whose --replay re-runs the single recorded case; the others re-run the check at the recorded tier/seed and look for the recorded case
NATIVE_REPLAY = {"C01", "C02", "C03", "C04", "C05", "C06", "C08", "C10", "C17"}
