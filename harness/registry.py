"""Property id -> check function."""
from . import props_glr

CHECKS = {
    "C01": props_glr.c01,
    "C02": props_glr.c02,
    "C03": props_glr.c03,
    "C17": props_glr.c17,
}
