"""Property id -> check function."""
from . import props_glr, props_tbl

CHECKS = {
    "C01": props_glr.c01,
    "C02": props_glr.c02,
    "C03": props_glr.c03,
    "C05": props_tbl.c05,
    "C17": props_glr.c17,
}
