"""Run TLC and read back what it decided.

Every property verdict of this framework is a TLA+ value printed by TLC through
`PrintT(<<"VERDICT", ...>>)` from an invariant of a trace/check specification, or the
outcome (pass / invariant violated) of a design-level model-checking run.  This module
starts TLC, collects those tuples (bracket matching: several workers interleave lines but
each PrintT is emitted atomically), and the state counts.
"""
import json
import os
import re
import subprocess
import time

from .common import SPEC, MachineryFailure, log, scratch

JAR = "/opt/veriftools/tla/tla2tools.jar:/opt/veriftools/tla/CommunityModules-deps.jar"


# --------------------------------------------------------------------------- TLA+ value parser
class _P:
    def __init__(self, s):
        self.s = s
        self.i = 0

    def ws(self):
        s = self.s
        while self.i < len(s) and s[self.i] in " \t\r\n":
            self.i += 1

    def peek(self, k=1):
        return self.s[self.i : self.i + k]

    def value(self):
        self.ws()
        s = self.s
        if self.peek(2) == "<<":
            self.i += 2
            return tuple(self.items(">>"))
        c = self.peek()
        if c == "{":
            self.i += 1
            items = self.items("}")
            try:
                return frozenset(items)
            except TypeError:
                return list(items)
        if c == "[":
            self.i += 1
            d = {}
            self.ws()
            if self.peek() == "]":
                self.i += 1
                return d
            while True:
                self.ws()
                m = re.compile(r"[A-Za-z_0-9]+").match(s, self.i)
                key = m.group(0)
                self.i = m.end()
                self.ws()
                assert self.peek(3) == "|->", s[self.i : self.i + 20]
                self.i += 3
                d[key] = self.value()
                self.ws()
                if self.peek() == ",":
                    self.i += 1
                    continue
                assert self.peek() == "]", s[self.i : self.i + 20]
                self.i += 1
                return d
        if c == "(":
            # function displayed as (a :> b @@ c :> d)
            self.i += 1
            d = {}
            while True:
                k = self.value()
                self.ws()
                assert self.peek(2) == ":>"
                self.i += 2
                v = self.value()
                d[k] = v
                self.ws()
                if self.peek(2) == "@@":
                    self.i += 2
                    continue
                assert self.peek() == ")"
                self.i += 1
                return d
        if c == '"':
            j = self.i + 1
            out = []
            while s[j] != '"':
                if s[j] == "\\":
                    j += 1
                    out.append({"n": "\n", "t": "\t", "r": "\r"}.get(s[j], s[j]))
                else:
                    out.append(s[j])
                j += 1
            self.i = j + 1
            return "".join(out)
        m = re.compile(r"-?\d+").match(s, self.i)
        if m:
            self.i = m.end()
            return int(m.group(0))
        m = re.compile(r"[A-Za-z_][A-Za-z_0-9]*").match(s, self.i)
        if m:
            self.i = m.end()
            w = m.group(0)
            return True if w == "TRUE" else False if w == "FALSE" else w
        raise ValueError("cannot parse TLA value at: " + s[self.i : self.i + 40])

    def items(self, close):
        out = []
        self.ws()
        if self.peek(len(close)) == close:
            self.i += len(close)
            return out
        while True:
            out.append(self.value())
            self.ws()
            if self.peek() == ",":
                self.i += 1
                continue
            assert self.peek(len(close)) == close, self.s[self.i : self.i + 30]
            self.i += len(close)
            return out


def parse_value(text):
    return _P(text).value()


def extract_tuples(out, tag="VERDICT"):
    """All `<<"tag", ...>>` values printed by PrintT, by bracket matching."""
    res = []
    needle = re.compile(r'<<\s*"%s"' % re.escape(tag))
    i = 0
    n = len(out)
    while True:
        m = needle.search(out, i)
        if not m:
            break
        i = m.start()
        # match brackets, respecting strings
        depth = 0
        j = i
        instr = False
        while j < n:
            ch = out[j]
            if instr:
                if ch == "\\":
                    j += 1
                elif ch == '"':
                    instr = False
            elif ch == '"':
                instr = True
            elif out.startswith("<<", j):
                depth += 1
                j += 1
            elif out.startswith(">>", j):
                depth -= 1
                j += 1
                if depth == 0:
                    break
            j += 1
        text = out[i : j + 1]
        try:
            res.append(parse_value(text))
        except Exception as e:  # pragma: no cover - machinery
            raise MachineryFailure("unparsable TLC tuple: %s (%s)" % (text[:200], e)) from e
        i = j + 1
    return res


# --------------------------------------------------------------------------- running TLC
_STATS = re.compile(r"(\d+) states generated, (\d+) distinct states found, (\d+) states left")


class TLCResult:
    def __init__(self):
        self.rc = None
        self.out = ""
        self.generated = 0
        self.distinct = 0
        self.verdicts = []
        self.violated = None  # name of a violated invariant (design-level runs)
        self.wall = 0.0
        self.coverage = {}

    @property
    def ok(self):
        return self.rc == 0


def run_tlc(
    module,
    cfg,
    env=None,
    workers=4,
    timeout=1200,
    tag="VERDICT",
    heap="3g",
    extra=(),
    deadlock=False,
    coverage=False,
    allow_violation=False,
    heavy=False,
):
    """Run TLC on spec/<module>.tla with config file `cfg` (path relative to spec/ or absolute)."""
    t0 = time.time()
    meta = os.path.join(scratch(), "tlc-%d-%d" % (os.getpid(), int(time.time() * 1e6) % 10**9))
    os.makedirs(meta, exist_ok=True)
    cfgp = cfg if os.path.isabs(cfg) else os.path.join(SPEC, cfg)
    # Most runs judge a few hundred to a few thousand cases and live for seconds: JIT compilation beyond C1 and a parallel collector
    # cost more than they give (measured: 7.4 s -> 4.5 s for a 354-case shard).  `heavy` runs (design-level model checking) keep them.
    jvm = ["-XX:+UseParallelGC"] if heavy else ["-XX:TieredStopAtLevel=1", "-XX:+UseSerialGC"]
    cmd = [
        "java",
        *jvm,
        "-Xmx" + heap,
        "-Xss16m",
        "-cp",
        JAR,
        "tlc2.TLC",
        "-workers",
        str(workers),
        "-metadir",
        meta,
        "-noGenerateSpecTE",
        "-config",
        cfgp,
    ]
    if not deadlock:
        cmd.append("-deadlock")  # -deadlock = do NOT check for deadlock
    if coverage:
        cmd += ["-coverage", "1"]
    cmd += list(extra)
    cmd.append(module)
    e = dict(os.environ)
    e.pop("JAVA_TOOL_OPTIONS", None)
    if env:
        e.update({k: str(v) for k, v in env.items()})
    def _lift():
        import resource

        _s, hard = resource.getrlimit(resource.RLIMIT_AS)
        resource.setrlimit(resource.RLIMIT_AS, (hard, hard))

    try:
        p = subprocess.run(
            cmd, cwd=SPEC, env=e, stdout=subprocess.PIPE, stderr=subprocess.STDOUT, timeout=timeout, text=True,
            preexec_fn=_lift,
        )
    except subprocess.TimeoutExpired as ex:
        subprocess.run(["pkill", "-f", meta], check=False)
        raise MachineryFailure("TLC timed out after %ss on %s" % (timeout, module)) from ex
    r = TLCResult()
    r.rc = p.returncode
    r.out = p.stdout
    r.wall = time.time() - t0
    for m in _STATS.finditer(p.stdout):
        r.generated, r.distinct = int(m.group(1)), int(m.group(2))
    r.verdicts = extract_tuples(p.stdout, tag)
    m = re.search(r"Invariant (\w+) is violated", p.stdout)
    if m:
        r.violated = m.group(1)
    m2 = re.search(r"Error: (Temporal properties were violated|Deadlock reached)", p.stdout)
    if m2 and not r.violated:
        r.violated = m2.group(1)
    if coverage:
        for m in re.finditer(r"<(\w+) line \d+, col \d+ to line \d+, col \d+ of module \w+>: (\d+):(\d+)", p.stdout):
            r.coverage[m.group(1)] = r.coverage.get(m.group(1), 0) + int(m.group(3))
    if r.rc != 0 and not (allow_violation and r.violated):
        tail = "\n".join(p.stdout.splitlines()[-40:])
        raise MachineryFailure("TLC failed (rc=%s) on %s:\n%s" % (r.rc, module, tail))
    return r


def run_shards(module, cfg, shard_files, envkey="CASES_FILE", procs=4, workers=4, **kw):
    """Run one TLC per shard file, `procs` at a time.  Returns list of TLCResult."""
    from concurrent.futures import ThreadPoolExecutor

    def one(path):
        return run_tlc(module, cfg, env={envkey: path}, workers=workers, **kw)

    with ThreadPoolExecutor(max_workers=procs) as ex:
        return list(ex.map(one, shard_files))


# Launching a JVM costs 1-4 s here (more when several start at once and the page cache is cold), so a corpus is cut into few, large
# shards: as many as TLC processes run side by side, more only when a shard would exceed SHARD_BYTES.
SHARD_PROCS = 4
SHARD_BYTES = 14_000_000


def write_shards(cases, prefix, max_bytes=None, min_shards=None):
    """Serialise cases into JSON array files.  Returns file paths.  (max_bytes / min_shards of callers are ignored: central policy above.)
    Each case gets its index in the whole corpus as field 'cix' (carried into verdicts)."""
    max_bytes, min_shards = SHARD_BYTES, SHARD_PROCS
    paths = []
    cur, size = [], 0
    blobs = []
    for i, c in enumerate(cases):
        c = dict(c)
        c["cix"] = i
        blobs.append(json.dumps(c, separators=(",", ":")))
    total = sum(len(b) for b in blobs)
    limit = min(max_bytes, max(1, total // max(1, min_shards)) + 1)

    def flush():
        nonlocal cur, size
        if cur:
            p = "%s-%03d.json" % (prefix, len(paths))
            with open(p, "w") as f:
                f.write("[" + ",".join(cur) + "]")
            paths.append(p)
            cur, size = [], 0

    for b in blobs:
        if size + len(b) > limit and cur:
            flush()
        cur.append(b)
        size += len(b)
    flush()
    return paths


def sany(module_path):
    p = subprocess.run(
        ["java", "-cp", JAR, "tla2sany.SANY", module_path], cwd=SPEC, stdout=subprocess.PIPE, stderr=subprocess.STDOUT, text=True
    )
    ok = p.returncode == 0 and "Semantic errors" not in p.stdout and "*** Errors" not in p.stdout and "Parse Error" not in p.stdout
    if not ok:
        log(p.stdout[-2000:])
    return ok
