"""Guarded worker pool for running the real code (DESIGN 4.1)."""
import multiprocessing as mp
import os
from concurrent.futures import ProcessPoolExecutor
from concurrent.futures.process import BrokenProcessPool

from .common import MachineryFailure, log

NPROC = min(16, os.cpu_count() or 4)


def _init():
    from . import real

    real.init_worker()


def _call(args):
    modname, fname, job = args
    import importlib

    mod = importlib.import_module(modname)
    try:
        return getattr(mod, fname)(job)
    except Exception as e:  # noqa: BLE001  (a harness bug: say which job, the pool would only show the exception)
        import traceback

        raise RuntimeError("worker %s.%s failed on job %s\n%s" % (modname, fname, repr(job)[:600], traceback.format_exc()[-1500:])) from e


def run_jobs(modname, fname, jobs, procs=NPROC, chunksize=4):
    """Run harness.<modname>.<fname>(job) for every job in guarded worker processes; keep order."""
    if not jobs:
        return []
    ctx = mp.get_context("fork")
    from .common import scratch
    scratch()  # created (and removed at exit) by the parent; forked workers inherit it instead of leaving their own behind
    try:
        with ProcessPoolExecutor(max_workers=procs, mp_context=ctx, initializer=_init) as ex:
            return list(ex.map(_call, [("harness." + modname, fname, j) for j in jobs], chunksize=chunksize))
    except BrokenProcessPool as e:
        raise MachineryFailure("a worker process died: %s" % e) from e
    except RuntimeError as e:
        raise MachineryFailure(str(e)) from e


def flatten(list_of_lists):
    return [x for xs in list_of_lists for x in xs]
