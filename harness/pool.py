"""Guarded worker pool for running the real code (DESIGN 4.1)."""
import multiprocessing as mp
import os
from concurrent.futures import ProcessPoolExecutor
from concurrent.futures.process import BrokenProcessPool

from .common import MachineryFailure, log

NPROC = min(16, os.cpu_count() or 4)


def _init():
    from . import real

    real.init_worker()


def _call(args):
    modname, fname, job = args
    import importlib

    mod = importlib.import_module(modname)
    return getattr(mod, fname)(job)


def run_jobs(modname, fname, jobs, procs=NPROC, chunksize=4):
    """Run harness.<modname>.<fname>(job) for every job in guarded worker processes; keep order."""
    if not jobs:
        return []
    ctx = mp.get_context("fork")
    try:
        with ProcessPoolExecutor(max_workers=procs, mp_context=ctx, initializer=_init) as ex:
            return list(ex.map(_call, [("harness." + modname, fname, j) for j in jobs], chunksize=chunksize))
    except BrokenProcessPool as e:
        raise MachineryFailure("a worker process died: %s" % e) from e


def flatten(list_of_lists):
    return [x for xs in list_of_lists for x in xs]
