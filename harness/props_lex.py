"""C07 decided on the lexer stage (LexCheck.tla conformance + LexerMC.tla design-level equivalence)."""
from . import stage_lex
from .checklib import Outcome
from .common import MachineryFailure, seed, tier


def replay_obj(c):
    return {"kind": "lex-case", "name": c["name"], "gtext": c["gtext"], "recs": c["recs"], "ic": c["ic"], "parser": c["parser"], "ld": c["ld"],
            "observed": c["obs"], "tlc": {"clauses": c["clauses"], "flags": c["flags"]}}


def c07(replay_case=None):
    out = Outcome("C07")
    if replay_case is not None:
        raise MachineryFailure("C07 replay: rebuild the grammar text from the replay file with the recorded recognizer lengths (harness/stage_lex.worker)")
    r = stage_lex.get(tier(), seed())
    cases, st = r["cases"], r["stats"]
    d = st["design"]
    out.cov["states"] = st["states"] + d["states"]
    out.cov["transitions"] = st["generated"] + d["generated"]
    if d["violated"]:
        raise MachineryFailure("design-level Lexer equivalence violated in the SPEC (%s): the reference needs repair, no verdict on the code" % d["violated"])
    if not d["neg_violated"]:
        raise MachineryFailure("negative control of the Lexer design-level check did not fail: the check is vacuous")
    for c in cases:
        out.count()
        out.cov["traces_validated_against_impl"] += 1
        if c["flags"]["matching"] >= 2:
            out.nontrivial(c["name"])
            out.sample({"case": c["name"], "observed": c["obs"], "reference": c["flags"]})
        for cl in c["clauses"]:
            out.fail(cl, c["name"], replay_obj(c), origin=c["origin"])
    out.assumptions = ["terminal attributes (kind, priority, prefer, finish mark) and match lengths are projected from the real Grammar object and recognizers (trusted)",
                       "name order (tie-break of the candidate order) is supplied as a rank computed with Python string comparison",
                       "for terminals with explicit finish/nofinish marks the reference is the mark meaning built into Lexer!Impl (DESIGN 7 C07); the documented order is claimed for unmarked terminals"]
    return out.finish(extra_cov={
        "rule": "cases = terminal configurations (exhaustive for <= 2 terminals over kinds str/re/custom, priorities, lengths 0..2, prefer; seeded random up to 5 terminals with "
                "marks, keywords, ignore_case) x {Parser, GLRParser} x lexical_disambiguation on/off, scanned by the real parser; non-trivial = at least 2 terminals match; "
                "design level: LexerMC exhaustive over 3 terminals (Impl = Doc)",
        "design_level": d, "skipped_configurations": st["skipped"]})
