"""C16 decided on the determinism stage (DetCheck.tla)."""
from . import stage_det
from .checklib import Outcome
from .common import MachineryFailure, seed, tier


def c16(replay_case=None):
    out = Outcome("C16")
    if replay_case is not None:
        raise MachineryFailure("C16 replay: run harness/det_worker.py on the recorded grammar under the recorded hash seeds")
    r = stage_det.get(tier(), seed())
    st = r["stats"]
    out.cov["states"], out.cov["transitions"] = st["states"], st["generated"]
    for c in r["cases"]:
        out.count()
        out.cov["traces_validated_against_impl"] += 1
        if c["nconf"] >= 1 or c["ambiguous_inputs"] >= 1:
            out.nontrivial(c["name"])
            out.sample({"grammar": c["name"], "conflicts": c["nconf"], "ambiguous_inputs": c["ambiguous_inputs"]})
        for cl in c["clauses"]:
            out.fail(cl, c["name"], {"kind": "determinism-case", "name": c["name"], "seeds": st["seeds"], "tlc": {"clauses": c["clauses"]}}, origin=c["origin"])
    out.assumptions = ["hash-order dependence inside re/json or in code paths not reached by the explored grammars cannot be excluded (DESIGN 9)",
                       "the design-level confluence argument (LRTable!Build.Confluent) is not built; assurance is the explored seeds"]
    return out.finish(extra_cov={
        "rule": "cases = grammars (family samples, seeded random, special tie-heavy and conflict-heavy grammars, import graphs with same-named terminals) each built twice in fresh interpreters "
                "under PYTHONHASHSEED in %s; compared: sha256 of the sorted-key and object-order serialisation, conflict reports, trees of ambiguous forests in index order; "
                "non-trivial = table with conflicts or an ambiguous input" % st["seeds"]})
