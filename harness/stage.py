"""Result cache for stages shared between properties (DESIGN 8).

A stage (e.g. the recorded GLR corpus judged by TLC) is keyed by the sha256 of /repo's library
sources, of the harness and spec sources, and of the stage parameters: a changed source file always
re-records and re-judges.  The cache lives in /verif/.cache (git-ignored) and only saves time when
several properties read the same stage; VERIF_NOCACHE=1 disables it.
"""
import fcntl
import hashlib
import json
import os

from .common import SPEC, VERIF, repo_fingerprint

CACHE = os.path.join(VERIF, ".cache")
if os.environ.get("VERIF_REPO"):
    # checks pointed at a scratch copy of the repository (mutation trials) keep their own cache
    CACHE = os.path.join(VERIF, ".cache", "alt-" + hashlib.sha256(os.environ["VERIF_REPO"].encode()).hexdigest()[:10])


def _src_hash():
    h = hashlib.sha256()
    for root in (os.path.join(VERIF, "harness"), SPEC):
        for d, _dirs, files in sorted(os.walk(root)):
            if "__pycache__" in d:
                continue
            for f in sorted(files):
                if f.endswith((".py", ".tla", ".cfg")):
                    with open(os.path.join(d, f), "rb") as fh:
                        h.update(f.encode())
                        h.update(fh.read())
    return h.hexdigest()


def cached(name, params, builder):
    key = hashlib.sha256(
        json.dumps([name, params, repo_fingerprint(), _src_hash()], sort_keys=True).encode()
    ).hexdigest()[:24]
    if os.environ.get("VERIF_NOCACHE") == "1":
        return builder()
    os.makedirs(CACHE, exist_ok=True)
    path = os.path.join(CACHE, "%s-%s.json" % (name, key))
    lock = open(os.path.join(CACHE, "%s.lock" % name), "w")
    fcntl.flock(lock, fcntl.LOCK_EX)
    try:
        if os.path.exists(path):
            try:
                with open(path) as f:
                    return json.load(f)
            except Exception:  # noqa: BLE001
                pass
        res = builder()
        # keep the cache small: drop older results of this stage
        for f in os.listdir(CACHE):
            if f.startswith(name + "-") and f.endswith(".json"):
                try:
                    os.remove(os.path.join(CACHE, f))
                except OSError:
                    pass
        tmp = path + ".tmp"
        with open(tmp, "w") as f:
            json.dump(res, f)
        os.replace(tmp, path)
        return res
    finally:
        fcntl.flock(lock, fcntl.LOCK_UN)
        lock.close()


def ensure(name, params, builder):
    """Build and cache a stage result WITHOUT keeping it in this process: a check that reads two large stages (C08, C17 in the thorough
    tier) builds the second one before it loads the first, so that the recording workers and TLC do not run next to gigabytes of results
    held by the parent (a thorough C17 ended in MemoryError that way on a loaded machine)."""
    if os.environ.get("VERIF_NOCACHE") == "1":
        return
    key = hashlib.sha256(
        json.dumps([name, params, repo_fingerprint(), _src_hash()], sort_keys=True).encode()
    ).hexdigest()[:24]
    if os.path.exists(os.path.join(CACHE, "%s-%s.json" % (name, key))):
        return
    res = cached(name, params, builder)
    del res
    import gc

    gc.collect()
