"""C15 decided on the lifecycle stage (Lifecycle.tla histories replayed, LifecycleTrace.tla)."""
from . import stage_life
from .checklib import Outcome
from .common import MachineryFailure, seed, tier


def c15(replay_case=None):
    out = Outcome("C15")
    if replay_case is not None:
        raise MachineryFailure("C15 replay: re-run harness/stage_life.replay on the recorded history")
    r = stage_life.get(tier(), seed())
    st = r["stats"]
    out.cov["states"], out.cov["transitions"] = st["states"], st["generated"]
    for c in r["traces"]:
        out.count()
        out.cov["traces_validated_against_impl"] += 1
        kinds = {e[1] for e in c["replies"] if e[0] == "build"}
        if len(kinds) >= 2 or any(e[0] == "buildfail" for e in c["replies"]):
            out.nontrivial(c["name"])
            out.sample({"history": c["name"], "replies": c["replies"]})
        for step, clause, detail in c["bad"]:
            rep = {"kind": "lifecycle-history", "name": c["name"], "step": step, "detail": detail, "replies": c["replies"]}
            if clause.startswith("C15:"):
                out.fail(clause, c["name"] + " @step %d" % step, rep, origin=c["origin"])
            else:
                out.drift.append("%s at step %d of %s (%s)" % (clause, step, c["name"], detail))
    out.assumptions = ["one fixed grammar (expression rules with an ambiguity resolved by prefer_shifts, a terminal whose action raises, a custom recognizer that raises, keyword/identifier overlap) in two variants: without and with a LAYOUT rule",
                       "all parsers of a history are built with the same action table; the fresh reference is a new Grammar and a new parser of the same kind",
                       "builds interrupted from outside (signals) are not part of the statement and are not generated"]
    return out.finish(extra_cov={
        "rule": "histories = ALL sequences up to 3 (thorough 4) steps over {build lr/glr/lrrec/lrld0, failing build (conflicts; a ParserInitError build would need a different action table, which the statement excludes), parse of sentence / non-sentence / input raising in an "
                "action / in a recognizer / keyword overlap by any built parser} enumerated by TLC from Lifecycle.tla, plus seeded TLC simulations of depth 6 over 7 parser kinds and 7 inputs; "
                "each replayed on both grammar variants; every parse reply compared with a fresh parser's; grammar projection compared after every step; "
                "non-trivial = at least two parser kinds or a failing build in the history",
        "generator": st["gen"]})
