"""Grammar / input generators (pure Python, no parglare import).

A grammar is a dict:
  {"prods": [(lhs, (sym, ...)), ...], "terms": [(name, kind, pattern), ...]}
kind in {"str", "re"}.  The first production's lhs is the start symbol.

Family F(k, r): nonterminals subset of NTS, terminals subset of the given terminal list, at most
k productions with right-hand sides no longer than r, first production for S, every nonterminal
used is defined, reachable and productive.  Enumeration order is fixed (lexicographic over a
fixed candidate list) and sampling from it is done with a fixed-seed generator so that the
deterministic part of every check explores the same cases on every run (DESIGN 5, 7).
"""
import itertools
import random

PLAIN_TERMS = [("a", "str", "a"), ("b", "str", "b"), ("c", "str", "c")]
# terminals with mutual lexical overlap (DESIGN 7, Appendix B)
OVERLAP_TERMS = [
    ("t1", "str", "a"),
    ("t2", "str", "aa"),
    ("t3", "re", "a+"),
    ("t4", "str", "ab"),
    ("t5", "str", "b"),
    ("t6", "re", "[ab]"),
    ("t7", "re", "ab?"),
]


def gtext(g, extra=""):
    by, order = {}, []
    for lhs, rhs in g["prods"]:
        if lhs not in by:
            by[lhs] = []
            order.append(lhs)
        by[lhs].append(" ".join(rhs) if rhs else "EMPTY")
    s = ""
    for lhs in order:
        s += "%s: %s;\n" % (lhs, " | ".join(by[lhs]))
    s += extra
    s += "terminals\n"
    for name, kind, pat in g["terms"]:
        s += '%s: "%s";\n' % (name, pat) if kind == "str" else "%s: /%s/;\n" % (name, pat)
    return s


def gname(g):
    return gtext({"prods": g["prods"], "terms": []}).replace("terminals\n", "").replace("\n", " ").strip()


def nts_of(g):
    out = []
    for lhs, _ in g["prods"]:
        if lhs not in out:
            out.append(lhs)
    return out


def well_formed(prods, tnames):
    """first production for S; used NTs defined; all NTs reachable and productive."""
    if not prods or prods[0][0] != "S":
        return False
    defined = {p[0] for p in prods}
    for _, rhs in prods:
        for s in rhs:
            if s not in tnames and s not in defined:
                return False
    prod, ch = set(), True
    while ch:
        ch = False
        for lhs, rhs in prods:
            if lhs not in prod and all(x in tnames or x in prod for x in rhs):
                prod.add(lhs)
                ch = True
    if prod != defined:
        return False
    reach, todo = {"S"}, ["S"]
    while todo:
        x = todo.pop()
        for lhs, rhs in prods:
            if lhs == x:
                for s in rhs:
                    if s in defined and s not in reach:
                        reach.add(s)
                        todo.append(s)
    return reach == defined


def cyclic(prods, tnames):
    """some nonterminal derives itself (A =>+ A): the grammar has infinitely ambiguous sentences."""
    nts = {p[0] for p in prods}
    nullable, ch = set(), True
    while ch:
        ch = False
        for lhs, rhs in prods:
            if lhs not in nullable and all(x in nullable for x in rhs):
                nullable.add(lhs)
                ch = True
    unit = {n: set() for n in nts}
    for lhs, rhs in prods:
        for i, s in enumerate(rhs):
            if s in nts and all(x in nullable for j, x in enumerate(rhs) if j != i):
                unit[lhs].add(s)
    for n in nts:
        seen, todo = set(), list(unit[n])
        while todo:
            x = todo.pop()
            if x == n:
                return True
            if x not in seen:
                seen.add(x)
                todo.extend(unit[x])
    return False


def candidates(nts, tnames, r):
    syms = list(nts) + list(tnames)
    rhss = [()] + [tuple(x) for k in range(1, r + 1) for x in itertools.product(syms, repeat=k)]
    return [(l, rh) for l in nts for rh in rhss]


def family(k, r, nts=("S", "A"), terms=PLAIN_TERMS[:2], limit=None, rng_seed=20260926, sizes=None):
    """Deterministic list of grammars of F(k, r).  With `limit`, a fixed-seed sample."""
    tnames = [t[0] for t in terms]
    cands = candidates(nts, tnames, r)
    rng = random.Random(rng_seed)
    out, seen = [], set()
    sizes = sizes or range(1, k + 1)
    total_space = sum(_ncomb(len(cands), n) for n in sizes)
    if limit is None or total_space <= 40 * limit:
        allg = []
        for n in sizes:
            for combo in itertools.combinations(cands, n):
                prods = sorted(combo, key=lambda p: nts.index(p[0]))
                if well_formed(prods, tnames):
                    allg.append(prods)
        if limit is not None and len(allg) > limit:
            allg = rng.sample(allg, limit)
        for prods in allg:
            out.append({"prods": [(l, tuple(rh)) for l, rh in prods], "terms": list(terms)})
        return out
    tries = 0
    while len(out) < limit and tries < limit * 400:
        tries += 1
        n = rng.choice(list(sizes))
        combo = rng.sample(cands, n)
        prods = sorted(set(combo), key=lambda p: (nts.index(p[0]), cands.index(p)))
        key = tuple(prods)
        if key in seen or not well_formed(prods, tnames):
            continue
        seen.add(key)
        out.append({"prods": [(l, tuple(rh)) for l, rh in prods], "terms": list(terms)})
    return out


def _ncomb(n, k):
    r = 1
    for i in range(k):
        r = r * (n - i) // (i + 1)
    return r


def random_grammar(rng, nts=("S", "A", "B"), term_pool=PLAIN_TERMS, nterm=(2, 3), nprod=(3, 6), r=3, tries=200):
    for _ in range(tries):
        terms = rng.sample(term_pool, rng.randint(*nterm))
        tnames = [t[0] for t in terms]
        cands = candidates(nts, tnames, r)
        prods = sorted(set(rng.sample(cands, rng.randint(*nprod))), key=lambda p: (nts.index(p[0]), cands.index(p)))
        if well_formed(prods, tnames):
            used = {s for _, rhs in prods for s in rhs}
            terms = [t for t in terms if t[0] in used] or terms[:1]
            return {"prods": prods, "terms": terms}
    return None


def token_strings(alpha, n, min_len=0):
    for k in range(min_len, n + 1):
        for w in itertools.product(alpha, repeat=k):
            yield list(w)


LAYOUTS = ["none", "spaces", "lead", "trail", "mixed"]


def render(tokens, layout="none"):
    """Render a token-text list with a layout pattern (tokens are literal texts)."""
    if layout == "none":
        return "".join(tokens)
    if layout == "spaces":
        return " ".join(tokens)
    if layout == "lead":
        return "  " + " ".join(tokens)
    if layout == "trail":
        return " ".join(tokens) + " \n"
    if layout == "mixed":
        return "\n\t" + " \n".join(tokens) + "\t "
    raise ValueError(layout)


# Witness grammars of the pre-survey (DESIGN 6); always part of the deterministic corpus.
WITNESSES = [
    # D1 lost tree
    {"prods": [("S", ("A", "A")), ("A", ()), ("A", ("S", "b", "b"))], "terms": [("b", "str", "b")]},
    {"prods": [("S", ("x",)), ("S", ("B", "S", "b")), ("S", ("A", "S", "b")), ("B", ("A", "A")), ("A", ())],
     "terms": [("x", "str", "x"), ("b", "str", "b")]},
    # D2 duplicates
    {"prods": [("S", ("A", "S")), ("S", ("b",)), ("A", ("S",)), ("A", ("a",))], "terms": [("a", "str", "a"), ("b", "str", "b")]},
    {"prods": [("S", ()), ("S", ("S", "S", "b")), ("S", ("S", "b", "S"))], "terms": [("b", "str", "b")]},
    # plain ambiguous / expression-like
    {"prods": [("S", ("S", "a", "S")), ("S", ("b",))], "terms": [("a", "str", "a"), ("b", "str", "b")]},
    {"prods": [("S", ("S", "S")), ("S", ("a",)), ("S", ())], "terms": [("a", "str", "a")]},
    # cyclic
    {"prods": [("S", ("A",)), ("A", ("S",)), ("A", ("a",))], "terms": [("a", "str", "a")]},
]


# ---------------------------------------------------------------------------------------------------------------------------
# Idiom family: the rule shapes people write by hand -- zero/one-or-more lists (left and right recursive), optionals, separated
# lists, plain wrappers -- composed in sequence.  S: E1 E2 [E3]; every Ei is a terminal or an instance of an idiom with its own
# nonterminal.  (Round-2 seeded change C04-c lived exactly here: FIRST of a nullable left-recursive list used as a lookahead.)
IDIOMS = {
    "l0L": lambda X, t: [(X, (X, t)), (X, ())],
    "l0R": lambda X, t: [(X, (t, X)), (X, ())],
    "l1L": lambda X, t: [(X, (X, t)), (X, (t,))],
    "l1R": lambda X, t: [(X, (t, X)), (X, (t,))],
    "opt": lambda X, t: [(X, (t,)), (X, ())],
    "one": lambda X, t: [(X, (t,))],
    "sep": lambda X, t: [(X, (X, "s", t)), (X, (t,))],
}
IDIOM_NAMES = sorted(IDIOMS)


def idiom_grammar(seq, shared=False, ntelem=False):
    """seq: tuple of idiom names or 'tok'.  shared: every element uses terminal 'a' (ambiguity, conflicts); ntelem: the repeated
    element is a nonterminal (E_i: t) instead of the terminal itself."""
    prods, rest, tnames = [], [], []
    rhs = []
    for i, e in enumerate(seq):
        t = "a" if shared else "abc"[i]
        if t not in tnames:
            tnames.append(t)
        if e == "tok":
            rhs.append(t)
            continue
        X = "ABC"[i]
        rhs.append(X)
        el = t
        if ntelem:
            el = "EFG"[i]
            rest.append((el, (t,)))
        rest += IDIOMS[e](X, el)
        if e == "sep" and "s" not in tnames:
            tnames.append("s")
    prods = [("S", tuple(rhs))] + rest
    return {"prods": prods, "terms": [(t, "str", "," if t == "s" else t) for t in tnames]}


def idiom_family(limit=None, rng_seed=4711):
    out = []
    elems = IDIOM_NAMES + ["tok"]
    for n in (2, 3):
        for seq in itertools.product(elems, repeat=n):
            if all(e == "tok" for e in seq):
                continue
            for shared in (False, True):
                for ntelem in (False, True):
                    out.append(idiom_grammar(seq, shared, ntelem))
    if limit is not None and len(out) > limit:
        out = random.Random(rng_seed).sample(out, limit)
    return out


def rr_family(limit, rng_seed=4750):
    """Reduce/reduce families: A and B have the same body, S's alternatives start with A, B or a token and continue with tokens or
    E (E: x).  GLR keeps several heads in DIFFERENT states alive over the same input (round-2 seeded change C10-c: the heads'
    expected terminals were not united)."""
    rng = random.Random(rng_seed)
    tails = [t for n in (1, 2) for t in itertools.product(("x", "E", "p", "q"), repeat=n)]
    alts = [(f,) + t for f in ("A", "B", "z") for t in tails]
    out, seen = [], set()
    tries = 0
    while len(out) < limit and tries < limit * 50:
        tries += 1
        pick = tuple(sorted(rng.sample(alts, rng.choice((2, 3, 3)))))
        if pick in seen:
            continue
        seen.add(pick)
        used = {s for a in pick for s in a}
        if not {"A", "B"} <= used:
            continue
        prods = [("S", a) for a in pick] + [("A", ("a",)), ("B", ("a",))] + ([("E", ("x",))] if "E" in used else [])
        tn = sorted({s for _, rhs in prods for s in rhs if s.islower()})
        out.append({"prods": prods, "terms": [(t, "str", t) for t in tn]})
    return out


# Witnesses with lexical ambiguity between tokens of different length (finding D23).
LEXAMB_WITNESSES = [
    {"prods": [("S", ("A", "A")), ("A", ("t1",)), ("A", ("t2",))], "terms": OVERLAP_TERMS[:2]},
    {"prods": [("S", ("t1",)), ("S", ("S", "S")), ("S", ("t2", "t1"))], "terms": OVERLAP_TERMS[:2]},
]


def epschain_family(limit=None, rng_seed=4770):
    """Lookahead propagation through chains of nullable nonterminals: C (maybe empty) <- A (units / pairs of C) <- B (pairs of A) used by
    S with different followers in one state (round-2 seeded change C02-c: a widened follow set was not re-propagated in the closure)."""
    Cs = [[()], [(), ("c",)], [("c",)]]
    As = [[("C",)], [("C",), ("a",)], [("C", "C")], [(), ("C",)]]
    Bs = [[("A", "A")], [("A",)], [("A", "a")], [("A", "A"), ("b",)], [("a", "A")]]
    Ss = [("B", "a"), ("B",), ("B", "b"), ("a", "B"), ("B", "B"), ("A", "B"), ("B", "A", "a")]
    out = []
    for c, a, b in itertools.product(Cs, As, Bs):
        for s1, s2 in itertools.combinations(Ss, 2):
            prods = [("S", s1), ("S", s2)] + [("B", x) for x in b] + [("A", x) for x in a] + [("C", x) for x in c]
            used = {y for _, rhs in prods for y in rhs}
            tn = [t for t in ("a", "b", "c") if t in used]
            if well_formed(prods, tn):
                out.append({"prods": prods, "terms": [(t, "str", t) for t in tn]})
    if limit is not None and len(out) > limit:
        out = random.Random(rng_seed).sample(out, limit)
    return out


def ctx_family():
    """The LR(1)-but-not-LALR(1) pattern with n lookahead contexts: S: p_i A s_i | p_i B s_(i+1); A and B have the same body (plain,
    right- or left-recursive), so the state after the body exists in n pairwise un-mergeable copies (round-3 seeded change C05-e: only the
    first other same-kernel state was tried before splitting)."""
    out = []
    for n in (2, 3, 4):
        for rec in ("none", "right", "left", "nested"):
            prods = []
            for i in range(n):
                prods.append(("S", ("p%d" % i, "A", "s%d" % i)))
                prods.append(("S", ("p%d" % i, "B", "s%d" % ((i + 1) % n))))
            for X in ("A", "B"):
                prods.append((X, ("c",)))
                if rec == "right":
                    prods.append((X, ("c", X)))
                elif rec == "left":
                    prods.append((X, (X, "c")))
                elif rec == "nested":
                    prods.append((X, ("c", X, "c")))
            tn = ["p%d" % i for i in range(n)] + ["s%d" % i for i in range(n)] + ["c"]
            out.append({"prods": prods, "terms": [(t, "str", t) for t in tn]})
    return out


LEXSEQ_POOL = [("a", "str", "a"), ("aa", "str", "aa"), ("aaa", "str", "aaa"), ("ap", "re", "a+"), ("b", "str", "b"), ("ab", "str", "ab"), ("abq", "re", "ab?")]


def lexseq_family(limit=None, rng_seed=4760):
    """S: X | X Y Z | W over lexically overlapping terminals: a short token whose continuation can die while a longer token found at the
    same position is still waiting to be shifted (round-2 seeded change C17-c)."""
    names = [t[0] for t in LEXSEQ_POOL]
    out = []
    for x, y, z, w in itertools.product(names, repeat=4):
        if w == x:
            continue
        prods = [("S", (x,)), ("S", (x, y, z)), ("S", (w,))]
        used = {x, y, z, w}
        out.append({"prods": prods, "terms": [t for t in LEXSEQ_POOL if t[0] in used]})
    if limit is not None and len(out) > limit:
        out = random.Random(rng_seed).sample(out, limit)
    return out


# cyclic grammars whose left-recursive START symbol has an all-nullable tail: ACCEPT competes with an EMPTY reduction on STOP
# (round-4 seeded change C04-h dropped that reduction: a deterministic table for an infinitely ambiguous grammar)
ACCEPT_VS_EMPTY = [
    {"prods": [("S", ("S", "A")), ("S", ("a",)), ("A", ())], "terms": [("a", "str", "a")]},
    {"prods": [("S", ("S", "A", "B")), ("S", ("a", "b")), ("A", ()), ("B", ())], "terms": [("a", "str", "a"), ("b", "str", "b")]},
    {"prods": [("S", ("S", "A")), ("S", ("a",)), ("A", ("B",)), ("B", ())], "terms": [("a", "str", "a")]},
]


# D1 at its worst (known finding C01-KF1): the sentence is REJECTED, every derivation needs a path through a GSS node visited twice
REJECT_WITNESSES = [
    {"prods": [("S", ("t", "A", "S")), ("S", ("A", "A")), ("A", ("S",)), ("A", ())], "terms": [("t", "str", "t")]},
    {"prods": [("S", ()), ("S", ("A", "a", "a")), ("A", ("S", "S", "S")), ("A", ("S", "A", "a"))], "terms": [("a", "str", "a")]},
]


def sentences(g, maxlen=6, limit=400, max_forms=20000):
    """Terminal-text sentences of g up to maxlen tokens, shortest first (breadth-first leftmost derivation)."""
    prods = g["prods"]
    tmap = {t[0]: t[2] for t in g["terms"]}
    nts = {p[0] for p in prods}
    # minimal yield length per nonterminal (to prune)
    minlen = {n: None for n in nts}
    ch = True
    while ch:
        ch = False
        for lhs, rhs in prods:
            if all((s not in nts) or minlen[s] is not None for s in rhs):
                v = sum(1 if s not in nts else minlen[s] for s in rhs)
                if minlen[lhs] is None or v < minlen[lhs]:
                    minlen[lhs] = v
                    ch = True
    start = prods[0][0]
    out, seen, done = [], set(), set()
    frontier = [(start,)]
    forms = 0
    while frontier and len(out) < limit and forms < max_forms:
        nxt = []
        for form in frontier:
            forms += 1
            i = next((k for k, s in enumerate(form) if s in nts), None)
            if i is None:
                if form not in done:
                    done.add(form)
                    out.append([tmap[s] for s in form])
                continue
            for lhs, rhs in prods:
                if lhs != form[i]:
                    continue
                new = form[:i] + tuple(rhs) + form[i + 1:]
                need = sum(1 if s not in nts else (minlen[s] or 0) for s in new)
                if need <= maxlen and len(new) <= maxlen + 4 and new not in seen:
                    seen.add(new)
                    nxt.append(new)
        frontier = nxt
    out.sort(key=lambda w: (len(w), w))
    return out[:limit]


def directed_inputs(g, rng, n_all=3, maxlen=6, n_sent=14, n_mut=10):
    """all token strings <= n_all, plus sentences up to maxlen and single-edit corruptions of them (deterministic given rng)"""
    alpha = [t[2] for t in g["terms"]]
    words = [w for w in token_strings(alpha, n_all)]
    sents = sentences(g, maxlen=maxlen, limit=200)
    longer = [s for s in sents if len(s) > n_all]
    pick = longer if len(longer) <= n_sent else rng.sample(longer, n_sent)
    words += pick
    for s in (pick[:n_mut] if pick else sents[:n_mut]):
        if not s:
            continue
        k = rng.randrange(len(s))
        op = rng.choice(["del", "sub", "ins"])
        m = list(s)
        if op == "del":
            del m[k]
        elif op == "sub":
            m[k] = rng.choice(alpha)
        else:
            m.insert(k, rng.choice(alpha))
        words.append(m)
    seen, out = set(), []
    for w in words:
        t = tuple(w)
        if t not in seen:
            seen.add(t)
            out.append(list(w))
    return out
