"""Grammar / input generators (pure Python, no parglare import).

A grammar is a dict:
  {"prods": [(lhs, (sym, ...)), ...], "terms": [(name, kind, pattern), ...]}
kind in {"str", "re"}.  The first production's lhs is the start symbol.

Family F(k, r): nonterminals subset of NTS, terminals subset of the given terminal list, at most
k productions with right-hand sides no longer than r, first production for S, every nonterminal
used is defined, reachable and productive.  Enumeration order is fixed (lexicographic over a
fixed candidate list) and sampling from it is done with a fixed-seed generator so that the
deterministic part of every check explores the same cases on every run (DESIGN 5, 7).
"""
import itertools
import random

PLAIN_TERMS = [("a", "str", "a"), ("b", "str", "b"), ("c", "str", "c")]
# terminals with mutual lexical overlap (DESIGN 7, Appendix B)
OVERLAP_TERMS = [
    ("t1", "str", "a"),
    ("t2", "str", "aa"),
    ("t3", "re", "a+"),
    ("t4", "str", "ab"),
    ("t5", "str", "b"),
    ("t6", "re", "[ab]"),
    ("t7", "re", "ab?"),
]


def gtext(g, extra=""):
    by, order = {}, []
    for lhs, rhs in g["prods"]:
        if lhs not in by:
            by[lhs] = []
            order.append(lhs)
        by[lhs].append(" ".join(rhs) if rhs else "EMPTY")
    s = ""
    for lhs in order:
        s += "%s: %s;\n" % (lhs, " | ".join(by[lhs]))
    s += extra
    s += "terminals\n"
    for name, kind, pat in g["terms"]:
        s += '%s: "%s";\n' % (name, pat) if kind == "str" else "%s: /%s/;\n" % (name, pat)
    return s


def gname(g):
    return gtext({"prods": g["prods"], "terms": []}).replace("terminals\n", "").replace("\n", " ").strip()


def nts_of(g):
    out = []
    for lhs, _ in g["prods"]:
        if lhs not in out:
            out.append(lhs)
    return out


def well_formed(prods, tnames):
    """first production for S; used NTs defined; all NTs reachable and productive."""
    if not prods or prods[0][0] != "S":
        return False
    defined = {p[0] for p in prods}
    for _, rhs in prods:
        for s in rhs:
            if s not in tnames and s not in defined:
                return False
    prod, ch = set(), True
    while ch:
        ch = False
        for lhs, rhs in prods:
            if lhs not in prod and all(x in tnames or x in prod for x in rhs):
                prod.add(lhs)
                ch = True
    if prod != defined:
        return False
    reach, todo = {"S"}, ["S"]
    while todo:
        x = todo.pop()
        for lhs, rhs in prods:
            if lhs == x:
                for s in rhs:
                    if s in defined and s not in reach:
                        reach.add(s)
                        todo.append(s)
    return reach == defined


def cyclic(prods, tnames):
    """some nonterminal derives itself (A =>+ A): the grammar has infinitely ambiguous sentences."""
    nts = {p[0] for p in prods}
    nullable, ch = set(), True
    while ch:
        ch = False
        for lhs, rhs in prods:
            if lhs not in nullable and all(x in nullable for x in rhs):
                nullable.add(lhs)
                ch = True
    unit = {n: set() for n in nts}
    for lhs, rhs in prods:
        for i, s in enumerate(rhs):
            if s in nts and all(x in nullable for j, x in enumerate(rhs) if j != i):
                unit[lhs].add(s)
    for n in nts:
        seen, todo = set(), list(unit[n])
        while todo:
            x = todo.pop()
            if x == n:
                return True
            if x not in seen:
                seen.add(x)
                todo.extend(unit[x])
    return False


def candidates(nts, tnames, r):
    syms = list(nts) + list(tnames)
    rhss = [()] + [tuple(x) for k in range(1, r + 1) for x in itertools.product(syms, repeat=k)]
    return [(l, rh) for l in nts for rh in rhss]


def family(k, r, nts=("S", "A"), terms=PLAIN_TERMS[:2], limit=None, rng_seed=20260926, sizes=None):
    """Deterministic list of grammars of F(k, r).  With `limit`, a fixed-seed sample."""
    tnames = [t[0] for t in terms]
    cands = candidates(nts, tnames, r)
    rng = random.Random(rng_seed)
    out, seen = [], set()
    sizes = sizes or range(1, k + 1)
    total_space = sum(_ncomb(len(cands), n) for n in sizes)
    if limit is None or total_space <= 40 * limit:
        allg = []
        for n in sizes:
            for combo in itertools.combinations(cands, n):
                prods = sorted(combo, key=lambda p: nts.index(p[0]))
                if well_formed(prods, tnames):
                    allg.append(prods)
        if limit is not None and len(allg) > limit:
            allg = rng.sample(allg, limit)
        for prods in allg:
            out.append({"prods": [(l, tuple(rh)) for l, rh in prods], "terms": list(terms)})
        return out
    tries = 0
    while len(out) < limit and tries < limit * 400:
        tries += 1
        n = rng.choice(list(sizes))
        combo = rng.sample(cands, n)
        prods = sorted(set(combo), key=lambda p: (nts.index(p[0]), cands.index(p)))
        key = tuple(prods)
        if key in seen or not well_formed(prods, tnames):
            continue
        seen.add(key)
        out.append({"prods": [(l, tuple(rh)) for l, rh in prods], "terms": list(terms)})
    return out


def _ncomb(n, k):
    r = 1
    for i in range(k):
        r = r * (n - i) // (i + 1)
    return r


def random_grammar(rng, nts=("S", "A", "B"), term_pool=PLAIN_TERMS, nterm=(2, 3), nprod=(3, 6), r=3, tries=200):
    for _ in range(tries):
        terms = rng.sample(term_pool, rng.randint(*nterm))
        tnames = [t[0] for t in terms]
        cands = candidates(nts, tnames, r)
        prods = sorted(set(rng.sample(cands, rng.randint(*nprod))), key=lambda p: (nts.index(p[0]), cands.index(p)))
        if well_formed(prods, tnames):
            used = {s for _, rhs in prods for s in rhs}
            terms = [t for t in terms if t[0] in used] or terms[:1]
            return {"prods": prods, "terms": terms}
    return None


def token_strings(alpha, n, min_len=0):
    for k in range(min_len, n + 1):
        for w in itertools.product(alpha, repeat=k):
            yield list(w)


LAYOUTS = ["none", "spaces", "lead", "trail", "mixed"]


def render(tokens, layout="none"):
    """Render a token-text list with a layout pattern (tokens are literal texts)."""
    if layout == "none":
        return "".join(tokens)
    if layout == "spaces":
        return " ".join(tokens)
    if layout == "lead":
        return "  " + " ".join(tokens)
    if layout == "trail":
        return " ".join(tokens) + " \n"
    if layout == "mixed":
        return "\n\t" + " \n".join(tokens) + "\t "
    raise ValueError(layout)


# Witness grammars of the pre-survey (DESIGN 6); always part of the deterministic corpus.
WITNESSES = [
    # D1 lost tree
    {"prods": [("S", ("A", "A")), ("A", ()), ("A", ("S", "b", "b"))], "terms": [("b", "str", "b")]},
    {"prods": [("S", ("x",)), ("S", ("B", "S", "b")), ("S", ("A", "S", "b")), ("B", ("A", "A")), ("A", ())],
     "terms": [("x", "str", "x"), ("b", "str", "b")]},
    # D2 duplicates
    {"prods": [("S", ("A", "S")), ("S", ("b",)), ("A", ("S",)), ("A", ("a",))], "terms": [("a", "str", "a"), ("b", "str", "b")]},
    {"prods": [("S", ()), ("S", ("S", "S", "b")), ("S", ("S", "b", "S"))], "terms": [("b", "str", "b")]},
    # plain ambiguous / expression-like
    {"prods": [("S", ("S", "a", "S")), ("S", ("b",))], "terms": [("a", "str", "a"), ("b", "str", "b")]},
    {"prods": [("S", ("S", "S")), ("S", ("a",)), ("S", ())], "terms": [("a", "str", "a")]},
    # cyclic
    {"prods": [("S", ("A",)), ("A", ("S",)), ("A", ("a",))], "terms": [("a", "str", "a")]},
]


def sentences(g, maxlen=6, limit=400, max_forms=20000):
    """Terminal-text sentences of g up to maxlen tokens, shortest first (breadth-first leftmost derivation)."""
    prods = g["prods"]
    tmap = {t[0]: t[2] for t in g["terms"]}
    nts = {p[0] for p in prods}
    # minimal yield length per nonterminal (to prune)
    minlen = {n: None for n in nts}
    ch = True
    while ch:
        ch = False
        for lhs, rhs in prods:
            if all((s not in nts) or minlen[s] is not None for s in rhs):
                v = sum(1 if s not in nts else minlen[s] for s in rhs)
                if minlen[lhs] is None or v < minlen[lhs]:
                    minlen[lhs] = v
                    ch = True
    start = prods[0][0]
    out, seen, done = [], set(), set()
    frontier = [(start,)]
    forms = 0
    while frontier and len(out) < limit and forms < max_forms:
        nxt = []
        for form in frontier:
            forms += 1
            i = next((k for k, s in enumerate(form) if s in nts), None)
            if i is None:
                if form not in done:
                    done.add(form)
                    out.append([tmap[s] for s in form])
                continue
            for lhs, rhs in prods:
                if lhs != form[i]:
                    continue
                new = form[:i] + tuple(rhs) + form[i + 1:]
                need = sum(1 if s not in nts else (minlen[s] or 0) for s in new)
                if need <= maxlen and len(new) <= maxlen + 4 and new not in seen:
                    seen.add(new)
                    nxt.append(new)
        frontier = nxt
    out.sort(key=lambda w: (len(w), w))
    return out[:limit]


def directed_inputs(g, rng, n_all=3, maxlen=6, n_sent=14, n_mut=10):
    """all token strings <= n_all, plus sentences up to maxlen and single-edit corruptions of them (deterministic given rng)"""
    alpha = [t[2] for t in g["terms"]]
    words = [w for w in token_strings(alpha, n_all)]
    sents = sentences(g, maxlen=maxlen, limit=200)
    longer = [s for s in sents if len(s) > n_all]
    pick = longer if len(longer) <= n_sent else rng.sample(longer, n_sent)
    words += pick
    for s in (pick[:n_mut] if pick else sents[:n_mut]):
        if not s:
            continue
        k = rng.randrange(len(s))
        op = rng.choice(["del", "sub", "ins"])
        m = list(s)
        if op == "del":
            del m[k]
        elif op == "sub":
            m[k] = rng.choice(alpha)
        else:
            m.insert(k, rng.choice(alpha))
        words.append(m)
    seen, out = set(), []
    for w in words:
        t = tuple(w)
        if t not in seen:
            seen.add(t)
            out.append(list(w))
    return out
