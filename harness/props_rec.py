"""C11 decided on the recovery stage (RecoveryCheck.tla final-state clauses, LRTrace.tla event validation)."""
from . import stage_rec
from .checklib import Outcome
from .common import MachineryFailure, seed, tier


def c11(replay_case=None):
    out = Outcome("C11")
    if replay_case is not None:
        raise MachineryFailure("C11 replay: re-run harness/stage_rec.worker on the recorded grammar text and input")
    r = stage_rec.get(tier(), seed())
    st = r["stats"]
    out.cov["states"], out.cov["transitions"] = st["states"], st["generated"]
    for c in r["cases"]:
        out.count()
        if c["parser"] == "lr" and c["trace"] == "ok":
            out.cov["traces_validated_against_impl"] += 1
        if c["nerr"] >= 1 or c["nrecover"] >= 1:
            out.nontrivial(c["name"])
            out.sample({"case": c["name"], "outcome": c["rec"], "recoveries": c["nrecover"]})
        rep = {"kind": "recovery-case", "name": c["name"], "gtext": c["gtext"], "input": c["input"], "parser": c["parser"], "strategy": c["strategy"], "observed": c["rec"],
               "tlc": {"clauses": c["clauses"], "trace": c["trace"], "trace_at": c["trace_at"]}}
        facts = {"parser:" + c["parser"], "strategy:" + c["strategy"], "raised:" + c["rec"]["cls"]}
        for cl in c["clauses"]:
            out.fail(cl, c["name"], rep, origin=c["origin"], facts=facts)
        if c["trace"].startswith("C11:"):
            out.fail(c["trace"], c["name"], rep, origin=c["origin"], facts=facts)
        elif c["trace"] != "ok":
            out.drift.append("LR trace rejected at event %d with %s on %s" % (c["trace_at"], c["trace"], c["name"]))
    out.assumptions = ["custom strategies are the harness's own: skip two characters, inject an expected zero-length token (at most twice, then default), delegate to the default",
                       "termination is observed under a 6 s alarm; progress of the default strategy is checked on the recorded H-lr events (LRTrace!Recover)",
                       "the 'every character accounted for' clause is claimed for LR with the default strategy, as the statement says"]
    return out.finish(extra_cov={
        "rule": "cases = corrupted sentences (token insertion, deletion, substitution, duplication, truncation, junk characters, blanks removed) and random short strings for four realistic grammars "
                "(expressions, nested lists, statements with keywords, nullable chain) and small family grammars, x {LR, GLR} x {default, skip 2 characters, inject token, delegate}; "
                "non-trivial = at least one error recorded or one recovery attempted"})
