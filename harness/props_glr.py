"""C01, C02, C03, C17 (and the forest-position part of C08) decided on the shared GLR stage."""
from . import stage_glr
from .checklib import Outcome
from .common import seed, tier


def replay_obj(c):
    return {"kind": "glr-case", "name": c["name"], "gtext": c["gtext"], "tables": c["tables"], "input": c["input"],
            "consume": c["consume"], "observed": {"kind": c["kind"], "exc": c["exc"], "info": c["info"]},
            "tlc": {"clauses": c["clauses"], "flags": c["flags"], "trace": c["trace"], "diag": c["diag"]}}


def run(prop, select, clause_ok, nontrivial, rule, assumptions, sample_of=None, replay_case=None, extra=None):
    out = Outcome(prop)
    if replay_case is not None:
        cases = stage_glr.judge_replay(replay_case)
        st = {"states": 0, "generated": 0, "build_errors": []}
    else:
        st_all = stage_glr.get(tier(), seed())
        cases, st = st_all["cases"], st_all["stats"]
    out.cov["states"] = st["states"]
    out.cov["transitions"] = st["generated"]
    actions = {}
    for c in cases:
        if not select(c):
            continue
        out.count()
        if c["trace"] == "ok":
            out.cov["traces_validated_against_impl"] += 1
        else:
            out.drift.append("GSS trace rejected at event %d with %s on %s" % (c["trace_at"], c["trace"], c["name"]))
        actions["events"] = actions.get("events", 0) + c["nev"]
        actions["reductions"] = actions.get("reductions", 0) + c["nred"]
        if nontrivial(c):
            out.nontrivial(c["name"])
            out.sample({"case": c["name"], "observed": c["kind"], "reference": c["flags"], "forest": c["info"]})
        facts = set(c["diag"]) | {"trace:" + c["trace"], "variant:" + c["variant"]}
        if c["info"].get("lenIsMult"):
            facts.add("len=count-with-multiplicities")
        for cl in c["clauses"]:
            if clause_ok(cl, c):
                out.fail(cl, c["name"], replay_obj(c), origin=c["origin"], facts=facts)
    design = None
    if prop in ("C01", "C02") and replay_case is None:
        # design level: the specified GLR machine over a TLA+-synthesised LALR table returns exactly the chart reference (spec/GLR.tla)
        from . import design_glr
        from .common import MachineryFailure

        design = design_glr.get(tier())
        if design["violated"]:
            raise MachineryFailure("design-level theorem %s of spec/GLR.tla is violated: the reference needs repair, no verdict on the code" % design["violated"])
        out.cov["states"] += design["states"]
        out.cov["transitions"] += design["generated"]
    if extra and replay_case is None:
        extra(out)
    out.assumptions = assumptions
    return out.finish(extra_cov={"rule": rule, "trace_events": actions, "build_errors": len(st["build_errors"]),
                                 "exhaustive": False, "design_level_GLR_equals_chart": design})


LATTICE_ASSUMPTION = "the token lattice (match lengths per terminal and position, ws skip table) is computed by the harness from the real recognizers and is trusted"
EQUAL_PRIOR = "all terminals have equal priority (with unequal priorities the GLR language is not a context-free function of the lattice)"


def c01(replay_case=None):
    return run(
        "C01",
        select=lambda c: c["consume"],
        clause_ok=lambda cl, c: cl.startswith("C01:"),
        nontrivial=lambda c: (c["flags"]["sentence"] and c["flags"]["trees"] != 1) or (not c["flags"]["sentence"] and len(c["input"]) >= 2),
        rule="cases = real GLRParser.parse calls on enumerated/sampled grammars x inputs (LALR and SLR, plain, layout, lexical overlap, seeded random); "
             "non-trivial = ambiguous or infinitely ambiguous sentence, or non-sentence of length >= 2; distinct by (grammar, tables, input)",
        assumptions=[LATTICE_ASSUMPTION, EQUAL_PRIOR],
        replay_case=replay_case,
    )


def c02(replay_case=None):
    return run(
        "C02",
        select=lambda c: c["consume"] and c["kind"] == "forest" and c["flags"]["trees"] >= 1,
        clause_ok=lambda cl, c: cl.startswith("C02:"),
        nontrivial=lambda c: c["flags"]["trees"] >= 2,
        rule="cases = sentences with finitely many derivations; non-trivial = at least 2 derivation trees in the reference forest; "
             "distinct by (grammar, tables, input)",
        assumptions=[LATTICE_ASSUMPTION, EQUAL_PRIOR, "only inputs with finitely many derivations are judged (property scope)"],
        replay_case=replay_case,
    )


def _forest_api(out):
    """C03 histories: Forest API call sequences enumerated/simulated by TLC, replayed on real forests, validated by ForestAPITrace.tla"""
    from . import stage_fapi

    r = stage_fapi.get(tier(), seed())
    out.cov["states"] += r["stats"]["states"]
    out.cov["transitions"] += r["stats"]["generated"]
    out.cov["forest_api_histories"] = r["stats"]["gen"]
    for c in r["traces"]:
        out.count()
        out.cov["traces_validated_against_impl"] += 1
        if c["len0"] >= 2:
            out.nontrivial("api:" + c["name"])
        for step, clause in c["bad"]:
            out.fail(clause, c["name"] + " @step %d" % step, {"kind": "forest-api-history", "name": c["name"], "step": step, "replies": c["replies"]},
                     origin=c["origin"], facts=set(c["facts"]))


def _big_forests(out):
    """C03 big-integer counts: calls on real forests with more than 10^12 / 2^32 / 2^63 trees, judged by BigForestCheck.tla (exact limb arithmetic)"""
    from . import stage_big

    r = stage_big.get(tier(), seed())
    out.cov["states"] += r["stats"]["states"]
    out.cov["transitions"] += r["stats"]["generated"]
    out.cov["big_forests"] = [{"forest": c["name"], "dag_nodes": c["nodes"], "trees": c["count_tla"], "calls": len(c["calls"])} for c in r["cases"]]
    for c in r["cases"]:
        out.count(len(c["calls"]))
        out.cov["traces_validated_against_impl"] += 1
        out.nontrivial("big:" + c["name"])
        for step, clause in c["bad"]:
            op, idx = c["calls"][step - 1]
            out.fail(clause, "%s :: call %d %s(%s)" % (c["name"], step, op, idx), {"kind": "big-forest-call", "name": c["name"], "step": step, "call": [op, idx],
                                                                                  "reply": c["replies"][step - 1], "trees": c["count_tla"]}, origin=c["origin"])


def _c03_extra(out):
    _forest_api(out)
    _big_forests(out)


def c03(replay_case=None):
    return run(
        "C03",
        select=lambda c: c["kind"] == "forest",
        clause_ok=lambda cl, c: cl.startswith("C03:"),
        nontrivial=lambda c: c["flags"]["trees"] >= 2 or c["flags"]["trees"] == -1,
        rule="cases = forests returned by real GLR parses; non-trivial = reference has >= 2 trees or infinitely many; "
             "every tree of forests up to 40 trees enumerated lazily, non-lazily, repeatedly, by iteration; indices len, len+1, 2len+3, len+10^12 probed; "
             "big-integer counts: forests with 3*10^11 .. 10^20+ trees, exact count (limb arithmetic in TLA+) vs solutions/len, indices 0, 1, 2, n/3, n/2, n-2, n-1, n, n+1, "
             "2n+3, 2^31-1, 2^31, 2^32, 2^63-2, 2^63-1, 2^63, 2^64, 10^30 lazily and non-lazily, repeated access, first tree, iteration prefix",
        assumptions=[LATTICE_ASSUMPTION, "tree sets are materialised in TLA+ up to 60 trees; beyond that counts (saturating + residues mod four 15-bit primes) only",
                     "API histories: which tree an index denotes is not documented; the machine demands an injection into the represented trees that is stable across lazy, non-lazy, iterated and repeated access"],
        replay_case=replay_case,
        extra=_c03_extra,
    )


def _lr_prefix(out):
    """the LR half of C17: whatever Parser(consume_input=False) returns is a valid derivation of a sentence prefix"""
    from . import props_lr, stage_lr

    r = stage_lr.get(tier(), seed())
    out.cov["states"] += r["stats"]["states"]
    out.cov["transitions"] += r["stats"]["generated"]
    for c in r["cases"]:
        if c["consume"] or not c["built"] or c.get("overlap"):
            continue
        out.count()
        if c["lr"]["kind"] == "tree" and len(c["input"]) >= 1:
            out.nontrivial("lr:" + c["name"])
        for cl in c["clauses"]:
            if cl.startswith("C04:accepts-nonsentence") or cl.startswith("C04:invalid-tree") or cl.startswith("C04:does-not-terminate"):
                out.fail(cl, c["name"], props_lr.replay_obj(c), origin=c["origin"])


def c17(replay_case=None):
    if replay_case is not None and replay_case.get("kind") == "lr-case":
        from . import props_lr

        return props_lr.run("C17", select=lambda c: True, clause_ok=lambda cl, c: cl.startswith("C04:"), nontrivial=lambda c: True,
                            rule="replay", assumptions=[], replay_case=replay_case)
    if replay_case is None:
        from . import stage_lr

        stage_lr.ensure(tier(), seed())     # built before the GLR stage is loaded (memory, see stage.ensure)
    return run(
        "C17",
        select=lambda c: not c["consume"],
        # (a tree whose nodes claim other positions than its leaves cover is not the derivation tree of the prefix it claims)
        clause_ok=lambda cl, c: cl.startswith(("C01:", "C02:")) or cl in ("C03:duplicate-alternative", "C03:len", "C08:forest-positions"),
        nontrivial=lambda c: c["flags"]["sentence"] and len(c["input"]) >= 1,
        rule="cases = GLRParser(consume_input=False).parse on acyclic grammars x all inputs <= n; reference = union over all sentence prefixes "
             "ending at a token boundary; non-trivial = some non-empty-input prefix is a sentence",
        assumptions=[LATTICE_ASSUMPTION, EQUAL_PRIOR],
        replay_case=replay_case,
        extra=_lr_prefix,
    )
