"""C06 decided on the precedence stage (Prec.tla)."""
from . import stage_prec
from .checklib import Outcome
from .common import MachineryFailure, seed, tier


def _resolved_tables(out):
    """table level: real resolved tables = Resolve.tla of the unresolved cells (ResolvedWalk.tla); design level: PrecDesign.tla"""
    from . import stage_res

    r = stage_res.get(tier(), seed())
    d = r["design"]
    if d["violated"]:
        raise MachineryFailure("design-level theorem of spec/PrecDesign.tla is violated (%s): the reference needs repair, no verdict on the code" % d["violated"])
    if not d["neg_violated"]:
        raise MachineryFailure("negative control of PrecDesign (mixed associativity at one priority) did not fail: the design-level check is vacuous")
    out.cov["states"] += r["stats"]["states"] + d["states"]
    out.cov["transitions"] += r["stats"]["generated"] + d["generated"]
    out.cov["design_level_Resolve_gives_precedence_correct_trees"] = d["runs"]
    out.cov["resolved_tables"] = {"walked": len(r["cases"]), "with_conflict_cells_left": sum(1 for c in r["cases"] if c["conflict_cells"]),
                                  "with_order_sensitive_cells_skipped": sum(1 for c in r["cases"] if c["sensitive_states"]), "not_built": len(r["unbuilt"])}
    for c in r["cases"]:
        out.count()
        out.cov["traces_validated_against_impl"] += 1
        if c["marked"]:
            out.nontrivial("table:" + c["name"])
        for b in c["bad"]:
            for cl in b["clauses"]:
                out.fail(cl, "%s @ state %s" % (c["name"], b["state"]), {"kind": "resolved-table", "name": c["name"], "gtext": c["gtext"], "state": b["state"], "detail": b["detail"]},
                         origin=c["origin"])
    for u in r["unbuilt"]:
        if u["kind"] == "ops":
            out.fail("C06:parser-does-not-construct", u["name"], {"kind": "resolved-table", "name": u["name"], "gtext": u["gtext"], "err": u["err"]}, origin=u["origin"])


def c06(replay_case=None):
    out = Outcome("C06")
    if replay_case is not None:
        from . import real

        real.init_worker()
        job = {"table": {o: (v["prio"], v["assoc"]) for o, v in replay_case["ops"].items()}, "order": replay_case["order"], "origin": "replay", "rulelevel": replay_case.get("rulelevel", False),
               "nexpr": 26, "maxtok": 9}
        cases, st = stage_prec.judge(stage_prec.worker(job), tag_="precreplay")
    else:
        r = stage_prec.get(tier(), seed())
        cases, st = r["cases"], r["stats"]
    out.cov["states"], out.cov["transitions"] = st["states"], st["generated"]
    for c in cases:
        order = [a.split('"')[1] if '"' in a and a.strip().startswith("E ") else ("paren" if "(" in a else "n")
                 for a in c["gtext"].strip().split(": ", 1)[1][:-1].split(" | ")]
        rep = {"kind": "prec-case", "name": c["name"], "gtext": c["gtext"], "ops": c["ops"], "order": order, "rulelevel": c["gtext"].startswith("E {")}
        for cl in c["case_clauses"]:
            out.fail(cl, c["name"], dict(rep, build_err=c["build_err"]), origin=c["origin"])
        for e in c["exprs"]:
            out.count()
            out.cov["traces_validated_against_impl"] += 1
            name = "%s @ %s" % (c["name"], " ".join(e["toks"]))
            if e["ntrees"] >= 2:
                out.nontrivial(name)
                out.sample({"grammar": c["name"], "expression": " ".join(e["toks"]), "trees_of_the_ambiguous_grammar": e["ntrees"], "lr": e["lr"], "glr_trees": e["nglr"]})
            for cl in e["clauses"]:
                if cl.startswith("SPEC:"):
                    raise MachineryFailure("reference inconsistency %s on %s" % (cl, name))
                if cl.startswith("C06:"):
                    out.fail(cl, name, dict(rep, expression=e["toks"], observed={"lr": e["lr"], "glr_trees": e["nglr"]}), origin=c["origin"])
    if replay_case is None:
        _resolved_tables(out)
    out.assumptions = ["expression grammar E: E op E {assoc, prio} | '(' E ')' | 'n' with every operator production marked; operators of equal priority share one associativity",
                       "priority numbers drawn from a pool containing 0, the default 10, and values above 256"]
    return out.finish(extra_cov={
        "rule": "cases = operator tables (all level/associativity shapes for <= 3 operators, seeded random up to 6 operators over up to 6 levels, shuffled alternatives, "
                "varied priority numbers) x expressions (all n a n b n, malformed ones, random with parentheses up to 9 tokens); TLC enumerates every tree of the token sequence, "
                "selects the unique precedence-correct one and compares with Parser (strategies off), GLRParser, and the stratified LALR(1) grammar with and without marks; "
                "non-trivial = expression with >= 2 trees in the unmarked grammar; "
                "table level: the real Parser/GLRParser tables of those operator grammars (LALR, SLR) and GLRParser tables of small general grammars with random "
                "priority/associativity/nops/nopse marks under the 4 prefer-shift combinations are walked against the canonical LR(1) automaton and every cell is compared "
                "with Resolve!ResolveCell of the unresolved cell (ResolvedWalk.tla); design level: PrecDesign.tla (spec-built LALR table + Resolve => deterministic and "
                "precedence-correct for every operator table over K operators, exhaustive, with a failing negative control)"})
