"""Runs in a FRESH interpreter under a given PYTHONHASHSEED (C16): builds every grammar of a batch file, prints per grammar the
sha256 of the sorted-key table serialisation (twice: repeated construction), the conflict report and the index order of forests."""
import hashlib
import json
import os
import sys
import tempfile

sys.path.insert(0, os.path.dirname(os.path.dirname(os.path.abspath(__file__))))
from harness import real  # noqa: E402

real.init_worker()
from parglare.tables.persist import table_to_serializable  # noqa: E402


def obs(parser):
    t = parser.table
    ser = json.dumps(table_to_serializable(t), sort_keys=True)
    raw = json.dumps(table_to_serializable(t))
    return {"sha": hashlib.sha256(ser.encode()).hexdigest()[:20], "shaorder": hashlib.sha256(raw.encode()).hexdigest()[:20],
            "sr": [[c.state.state_id, c.term.fqn, [p.prod_id for p in c.productions]] for c in t.sr_conflicts],
            "rr": [[c.state.state_id, c.term.fqn, [p.prod_id for p in c.productions]] for c in t.rr_conflicts]}


def main():
    batch = json.load(open(sys.argv[1]))
    out = {}
    for item in batch:
        name = item["name"]
        rec = {"err": ""}
        d = None
        try:
            with real.guard(30), real.quiet():
                if "files" in item:
                    d = tempfile.mkdtemp(prefix="det-")
                    for fn, txt in item["files"].items():
                        os.makedirs(os.path.dirname(os.path.join(d, fn)) or d, exist_ok=True)
                        with open(os.path.join(d, fn), "w") as f:
                            f.write(txt)

                    def mk():
                        # first call: no cache (table computed and cached); second call: the table comes from the cache
                        return real.Grammar.from_file(os.path.join(d, item["root"]))
                else:
                    def mk():
                        return real.Grammar.from_string(item["gtext"])
                p1 = real.GLRParser(mk(), tables=real.TABLES[item.get("tables", "LALR")])
                p2 = real.GLRParser(mk(), tables=real.TABLES[item.get("tables", "LALR")])
                rec["t1"], rec["t2"] = obs(p1), obs(p2)
                rec["forests"], rec["forests2"] = [], []
                # consume_input off: one forest over SEVERAL accepted heads (every prefix that is a sentence), in index order as well
                # (round-5 seeded change C16-h: the accepted heads went through a set before their links were merged)
                q1 = real.GLRParser(p1.grammar, tables=real.TABLES[item.get("tables", "LALR")], consume_input=False)
                q2 = real.GLRParser(p2.grammar, tables=real.TABLES[item.get("tables", "LALR")], consume_input=False)
                for p, key in ((q1, "forests"), (q2, "forests2")):
                    for w in item.get("inputs", []):
                        try:
                            f = p.parse(w)
                            n = len(f)
                            rec[key].append([w + " [prefixes]", min(n, 10**6), [f[i].to_str() for i in range(min(n, 12))]])
                        except Exception as e:  # noqa: BLE001
                            rec[key].append([w + " [prefixes]", -1, [type(e).__name__]])
                for p, key in ((p1, "forests"), (p2, "forests2")):
                    for w in item.get("inputs", []):
                        try:
                            f = p.parse(w)
                            n = len(f)
                            rec[key].append([w, min(n, 10**6), [f[i].to_str() for i in range(min(n, 12))]])
                        except Exception as e:  # noqa: BLE001
                            rec[key].append([w, -1, [type(e).__name__]])
        except Exception as e:  # noqa: BLE001
            rec["err"] = type(e).__name__
        finally:
            if d:
                import shutil

                shutil.rmtree(d, ignore_errors=True)
        out[name] = rec
    json.dump(out, sys.stdout)


main()
