"""C13 decided on the sugar stage (SugarCheck.tla)."""
from . import stage_sugar
from .checklib import Outcome
from .common import MachineryFailure, seed, tier


def c13(replay_case=None):
    out = Outcome("C13")
    if replay_case is not None:
        raise MachineryFailure("C13 replay: re-run harness/stage_sugar.worker on the recorded grammar text")
    r = stage_sugar.get(tier(), seed())
    st = r["stats"]
    out.cov["states"], out.cov["transitions"] = st["states"], st["generated"]
    for c in r["cases"]:
        rep = {"kind": "sugar-case", "name": c["name"], "gtext": c["gtext"], "greedy": c["greedy"]}
        for cl in c["case_clauses"]:
            out.fail(cl, c["name"], dict(rep, err=c["err"]), origin=c["origin"])
        for e in c["inputs"]:
            out.count()
            out.cov["traces_validated_against_impl"] += 1
            name = "%s @ %s" % (c["name"], " ".join(e["toks"]))
            if e["glr_ok"] and len(e["toks"]) >= 2:
                out.nontrivial(name)
                out.sample({"grammar": c["name"], "input": e["toks"], "accepted": e["glr_ok"], "trees": e["ntrees"]})
            for cl in e["clauses"]:
                out.fail(cl, name, dict(rep, input=e["toks"], tlc={"clauses": e["clauses"]}), origin=c["origin"],
                         facts={"greedy" if c["greedy"] else "non-greedy"})
    out.assumptions = ["the documented expansion is transcribed in Desugar.tla from docs/grammar_language.md; helper names follow the documented convention",
                       "repetition over a symbol whose result can be None is not generated (the built-in collect drops None elements after the first; undocumented either way)",
                       "production-set equality is claimed for group-free, greedy-free grammars; grammars with groups are judged by language and results"]
    return out.finish(extra_cov={
        "rule": "cases = small grammars decorated with ? * + separators and parenthesised groups (fixed-seed + seeded random) and greedy pattern grammars, x all inputs <= 3 tokens "
                "+ derived sentences; real productions vs Desugar!Expand, real acceptance vs CFG sentencehood over the expansion, every forest tree's result vs Actions!Eval, "
                "greedy vs non-greedy; non-trivial = accepted input of >= 2 tokens"})
