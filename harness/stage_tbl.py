"""Real LR tables (unresolved: no strategy applied) walked against canonical LR(1) by TLC (LRWalk.tla).
Serves C05 and is reused by C16 (determinism) for the table dumps."""
import os
import random

from . import gen, pool, stage, tlcrun
from .common import log, scratch, Timer

PARAMS = {
    "quick": dict(nfam3=700, nfam4=350, nrand=250, nlayout=80, budget=600, nidiom=320, neps=300),
    "thorough": dict(nfam3=12000, nfam4=6000, nrand=5000, nlayout=1500, budget=1500, nidiom=None, neps=None),
}

# small layout sub-grammars (rule LAYOUT) appended to a sample of grammars
LAYOUTS = [
    "LAYOUT: LI | LAYOUT LI | EMPTY;\nLI: w | cm;\n",
    "LAYOUT: LI*;\nLI: w | cm;\n",
    "LAYOUT: EMPTY | w LAYOUT | cm LAYOUT;\n",
    "LAYOUT: LB LB;\nLB: EMPTY | LB w | cm;\n",
]
LAYOUT_TERMS = [("w", "re", "\\s+"), ("cm", "re", "#[^\\n]*")]

# witnesses of D4 / D5 (fixed) and classic LALR-but-not-SLR, LR(1)-but-not-LALR grammars
SPECIAL = [
    {"prods": [("S", ("a",)), ("S", ("a", "A")), ("A", ("S", "S", "a")), ("A", ("a",))], "terms": [("a", "str", "a")]},
    {"prods": [("S", ("B", "A")), ("A", ("B", "B", "c")), ("B", ()), ("B", ("c", "a", "c")), ("B", ("S", "a", "a"))],
     "terms": [("a", "str", "a"), ("c", "str", "c")]},
    {"prods": [("S", ("A", "a")), ("S", ("b", "A", "c")), ("S", ("B", "c")), ("S", ("b", "B", "a")), ("A", ("d",)), ("B", ("d",))],
     "terms": [("a", "str", "a"), ("b", "str", "b"), ("c", "str", "c"), ("d", "str", "d")]},
    {"prods": [("S", ("L", "e", "R")), ("S", ("R",)), ("L", ("s", "R")), ("L", ("i",)), ("R", ("L",))],
     "terms": [("e", "str", "="), ("s", "str", "*"), ("i", "str", "i")]},
]


def _jobs(tier, seed):
    p = PARAMS[tier]
    gs = list(SPECIAL) + gen.WITNESSES
    gs += gen.family(3, 3, limit=p["nfam3"], rng_seed=31)
    gs += gen.family(4, 2, limit=p["nfam4"], rng_seed=32)
    gs += gen.family(4, 3, nts=("S", "A", "B"), terms=gen.PLAIN_TERMS, limit=p["nfam4"], rng_seed=33)
    jobs = [{"g": g, "origin": "det", "start": "main", "budget": p["budget"]} for g in gs]
    rng = random.Random(555)
    for g in rng.sample(gs, min(p["nlayout"], len(gs))):
        lay = rng.choice(LAYOUTS)
        jobs.append({"g": g, "origin": "det", "start": "layout", "layout": lay, "budget": p["budget"]})
        jobs.append({"g": g, "origin": "det", "start": "main", "layout": lay, "budget": p["budget"]})
    # hand-written list / optional idioms in sequence (gen.idiom_family)
    for g in gen.idiom_family(limit=p["nidiom"]):
        jobs.append({"g": g, "origin": "det", "start": "main", "budget": p["budget"]})
    # lookahead propagation through chains of nullable nonterminals (gen.epschain_family)
    for g in gen.epschain_family(limit=p["neps"]):
        jobs.append({"g": g, "origin": "det", "start": "main", "budget": p["budget"]})
    for g in gen.ctx_family():
        jobs.append({"g": g, "origin": "det", "start": "main", "budget": p["budget"]})
    rng = random.Random(7000003 * (seed + 1))
    k = 0
    while k < p["nrand"]:
        g = gen.random_grammar(rng, nprod=(4, 8), r=3)
        if g is None:
            continue
        k += 1
        jobs.append({"g": g, "origin": "rand", "start": "main", "budget": p["budget"]})
    return jobs


def worker(job):
    from . import real

    g = job["g"]
    extra = job.get("layout", "")
    text = gen.gtext(g if not extra else {"prods": g["prods"], "terms": g["terms"] + LAYOUT_TERMS}, extra=extra)
    out = []
    os.environ["PARGLARE_VERIF_MAX_STATES"] = str(job["budget"])
    try:
        for tables in ("LALR", "SLR"):
            name = "%s%s [%s,start=%s]" % (gen.gname(g), (" + " + extra.replace("\n", " ").strip()) if extra else "", tables, job["start"])
            case = {"name": name, "gtext": text, "tables": tables, "start": job["start"], "origin": job["origin"], "slr": tables == "SLR",
                    "built": False, "err": "", "real": [], "conflicts": [], "prods": [], "terms": []}
            try:
                with real.guard(30), real.quiet():
                    grammar = real.Grammar.from_string(text)
                    case["prods"] = real.prods_json(grammar)
                    case["terms"] = real.term_names(grammar)
                    if job["start"] == "layout":
                        from parglare.closure import LR_0, LR_1
                        from parglare.tables import create_table

                        table = create_table(grammar, itemset_type=LR_0 if tables == "SLR" else LR_1,
                                             start_production=grammar.get_production_id("LAYOUT"),
                                             prefer_shifts=False, prefer_shifts_over_empty=False)
                        case["prods"][0] = {"lhs": "S'", "rhs": ["LAYOUT", "STOP"]}
                    else:
                        table = real.GLRParser(grammar, tables=real.TABLES[tables]).table

                    class _P:
                        pass

                    ph = _P()
                    ph.table = table
                    case["real"] = real.table_json(ph, kernels=True)
                    case["conflicts"] = [[c.state.state_id, c.term.name, "SR"] for c in table.sr_conflicts] + \
                                        [[c.state.state_id, c.term.name, "RR"] for c in table.rr_conflicts]
                    case["built"] = True
                    # the grammar must be left as found (C15 anchor): production 0 restored
                    case["aug_restored"] = [s.name for s in grammar.productions[0].rhs] == [grammar.productions[1].symbol.name, "STOP"]
            except real.Timeout:
                case["err"] = "Timeout"
            except MemoryError:
                case["err"] = "MemoryError"
            except real._verif.StateBudgetExceeded:
                case["err"] = "budget"
            except Exception as e:  # noqa: BLE001
                case["err"] = "%s: %s" % (type(e).__name__, str(e)[:160])
            out.append(case)
    finally:
        os.environ.pop("PARGLARE_VERIF_MAX_STATES", None)
    return out


def judge(cases, tag="tbl"):
    ok = [c for c in cases if c["prods"]]
    paths = tlcrun.write_shards(ok, scratch() + "/" + tag, max_bytes=2_500_000, min_shards=8)
    rs = tlcrun.run_shards("LRWalk", "LRWalk.cfg", paths, procs=4, workers=4, tag="VERDICT")
    per = {}
    for r in rs:
        for v in r.verdicts:
            per.setdefault(v[1], set()).update(v[2])
    casev = {}
    for r in rs:
        for v in tlcrun.extract_tuples(r.out, "CASE"):
            casev[v[1]] = v
    if len(casev) != len(ok):
        raise tlcrun.MachineryFailure("LRWalk: %d cases but %d CASE tuples" % (len(ok), len(casev)))
    out = []
    for i, c in enumerate(ok):
        cv = casev[i]
        out.append({"name": c["name"], "gtext": c["gtext"], "tables": c["tables"], "start": c["start"], "origin": c["origin"],
                    "built": c["built"], "err": c["err"], "clauses": sorted(per.get(i, set()) | set(cv[2])),
                    "nlr1": cv[3], "nreal": cv[4], "nconf": len(c["conflicts"])})
    stats = {"states": sum(r.distinct for r in rs), "generated": sum(r.generated for r in rs),
             "unparsed": [{"name": c["name"], "err": c["err"]} for c in cases if not c["prods"]]}
    return out, stats


def build(tier, seed):
    t = Timer()
    jobs = _jobs(tier, seed)
    cases = pool.flatten(pool.run_jobs("stage_tbl", "worker", jobs))
    log("table corpus: %d jobs, %d tables in %.1fs" % (len(jobs), len(cases), t.s()))
    out, stats = judge(cases)
    log("table corpus judged in %.1fs" % t.s())
    return {"cases": out, "stats": stats}


def get(tier, seed):
    return stage.cached("tbl-" + tier, {"tier": tier, "seed": seed, "params": PARAMS[tier]}, lambda: build(tier, seed))


def judge_replay(rc):
    from . import real

    real.init_worker()
    # rebuild the same case from the grammar text
    job = {"g": None}
    os.environ["PARGLARE_VERIF_MAX_STATES"] = "1500"
    cases = _replay_cases(rc)
    out, _ = judge(cases, tag="tblreplay")
    return out


def _replay_cases(rc):
    from . import real

    class G(dict):
        pass

    # reuse worker logic through a synthetic job: the grammar text is authoritative
    def fake_gtext(_g, extra=""):
        return rc["gtext"]

    saved = gen.gtext, gen.gname
    gen.gtext = fake_gtext
    gen.gname = lambda _g: rc["name"].split(" [")[0]
    try:
        cs = worker({"g": {"prods": [], "terms": []}, "origin": "replay", "start": rc["start"], "budget": 1500})
    finally:
        gen.gtext, gen.gname = saved
    return [c for c in cs if c["tables"] == rc["tables"]]
