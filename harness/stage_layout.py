"""C14: token sequences rendered with different layout fillings, outcomes compared by Layout.tla."""
import random

from . import gen, pool, stage, tlcrun
from .common import log, scratch, Timer
from .stage_act import tagval

PARAMS = {"quick": dict(ngram=90, nseq=10, nvar=6), "thorough": dict(ngram=2500, nseq=24, nvar=12)}
WS_FILL = ["", " ", "  ", "\n", "\t \n", " \r\n "]
CM_FILL = ["", " ", "// note\n", "/* c */", "/* a /* nested */ b */", " // y\n\t", "/**/", "\n/* multi\nline */\n"]
WS_LAYOUT = "LAYOUT: LayoutItem | LAYOUT LayoutItem | EMPTY;\nLayoutItem: WSL;\n"
WS_LAYOUT_TERMS = "WSL: /[ \\t\\n\\r]+/;\n"
CM_LAYOUT = ("LAYOUT: LayoutItem | LAYOUT LayoutItem | EMPTY;\nLayoutItem: WSL | Comment;\nComment: '/*' CorNCs '*/' | LineComment;\n"
             "CorNCs: CorNC | CorNCs CorNC | EMPTY;\nCorNC: Comment | NotComment | WSL;\n")
CM_LAYOUT_TERMS = "WSL: /\\s+/;\nLineComment: /\\/\\/.*/;\nNotComment: /((\\*[^\\/])|[^\\s*\\/]|\\/[^\\*])+/;\n"
# custom ws parameters (characters that are regex-special inside a character class) with terminals among the characters a careless range would swallow
CUSTOM_WS = [(" ,-;", "[ ,\\-;]+", [("one", "str", "1"), ("dot", "str", "."), ("a", "str", "a")]),
             (" -+\n", "[ \\-+\\n]+", [("bang", "str", "!"), ("star", "str", "*"), ("a", "str", "a")]),
             ("^ ", "[\\^ ]+", [("a", "str", "a"), ("b", "str", "b"), ("c", "str", "c")])]
# characters that LOOK like whitespace (str.isspace / regex \\s) but are not in the default ws parameter: not layout, both kinds of parser must stop at them
JUNK = ["\x0c", "\x0b", "\xa0", "\x85", "\u2028", "\x1f", "\u3000"]
EXPR = {"prods": [("S", ("S", "a", "S")), ("S", ("b", "S", "c")), ("S", ("b",)), ("S", ("c", "c"))], "terms": gen.PLAIN_TERMS}


def with_layout(g, rules, terms):
    text = gen.gtext(g)
    head, t = text.split("terminals\n")
    return head + rules + "terminals\n" + t + terms


def render(tokens, fillers):
    """fillers[0] before the first token, fillers[i] after token i.  Returns (text, token starts, end position)."""
    s = fillers[0]
    starts = []
    for tok, f in zip(tokens, fillers[1:]):
        starts.append(len(s))
        s += tok + f
    return s, starts, len(s)


def _full(real, n):
    """tree with positions and layout_content (for the ws-vs-LAYOUT comparison)"""
    if n.is_term():
        return ["T", n.symbol.name, n.start_position, n.end_position, n.layout_content if isinstance(n.layout_content, str) else "?"]
    return ["N", n.production.prod_id, -1 if n.start_position is None else n.start_position, -1 if n.end_position is None else n.end_position,
            n.layout_content if isinstance(n.layout_content, str) else "?", [_full(real, c) for c in n]]


def _strip(t):
    return ["T", t[1]] if t[0] == "T" else ["N", t[1], [_strip(c) for c in t[5]]]


def _run(real, parser, w, glr):
    """outcome record; `res` and `full` are canonical JSON STRINGS of the projected trees (TLC compares them as values; strings keep the case files small)"""
    import json

    o = _run0(real, parser, w, glr)
    o["res"] = json.dumps(o["res"], separators=(",", ":"))
    o["full"] = json.dumps(o["full"], separators=(",", ":"))
    return o


def _run0(real, parser, w, glr):
    try:
        with real.guard(8), real.quiet():
            r = parser.parse(w)
            if glr:
                try:
                    n = len(r)
                except real.LoopError:
                    return {"kind": "ok", "res": ["loop"], "full": ["loop"], "cls": "", "pos": -1}
                trees = [_full(real, r.get_nonlazy_tree(i)) for i in range(min(n, 8))]
                return {"kind": "ok", "res": [n, [_strip(t) for t in trees]], "full": [n, trees], "cls": "", "pos": -1}
            t = _full(real, r)
            return {"kind": "ok", "res": _strip(t), "full": t, "cls": "", "pos": -1}
    except real.Timeout:
        return {"kind": "exc", "res": [], "full": ["timeout"], "cls": "Timeout", "pos": -1}
    except Exception as e:  # noqa: BLE001
        loc = getattr(e, "location", None)
        pos = loc.start_position if loc is not None and loc.start_position is not None else -1
        return {"kind": "exc", "res": [], "full": ["exc", type(e).__name__, pos], "cls": type(e).__name__, "pos": pos}


def worker(job):
    from . import real

    g = job["g"]
    rng = random.Random(job["seed"])
    comments = job["comments"]
    ws = job.get("ws")
    if ws is not None:
        text = gen.gtext(g)
        lr, _ = real.build("lr", text, build_tree=True, ws=ws)
        glr, _ = real.build("glr", text, ws=ws)
        ltext = with_layout(g, WS_LAYOUT, "WSL: /%s/;\n" % job["wsre"])
        lrL, _ = real.build("lr", ltext, build_tree=True)
        glrL, _ = real.build("glr", ltext)
    elif comments:
        text = with_layout(g, CM_LAYOUT, CM_LAYOUT_TERMS)
        if job.get("anchored"):
            # the usual anchored line comment /\/\/.*$/ in a grammar loaded with ignore_case=True: the grammar's regex flags (MULTILINE) hold for
            # every regex whatever other flags are added (round-5 seeded change C14-g: `re_flags = re.IGNORECASE` instead of `|=`)
            text = text.replace("LineComment: /\\/\\/.*/;", "LineComment: /\\/\\/.*$/;")
            assert "$/" in text
            with real.quiet():
                text = real.Grammar.from_string(text, ignore_case=True)
        lr, _ = real.build("lr", text, build_tree=True)
        glr, _ = real.build("glr", text)
        lrL = glrL = None
    else:
        text = gen.gtext(g)
        lr, _ = real.build("lr", text, build_tree=True)
        glr, _ = real.build("glr", text)
        ltext = with_layout(g, WS_LAYOUT, WS_LAYOUT_TERMS)
        lrL, _ = real.build("lr", ltext, build_tree=True)
        glrL, _ = real.build("glr", ltext)
    if glr is None:
        return []
    fills = CM_FILL if comments else WS_FILL
    if ws is not None:
        fills = ["", ws[0], ws[-1], ws, ws[1:], ws[::-1] + ws[0]]
    out = []
    for toks in job["seqs"]:
        variants = []
        seen = set()
        if comments:
            # the parsers are reused for every variant; in between they also see an input whose layout cannot be parsed (unterminated comment)
            for p_ in (lr, glr):
                if p_ is not None:
                    try:
                        with real.guard(5), real.quiet():
                            p_.parse("  ".join(toks) + "   /* never closed")
                    except Exception:  # noqa: BLE001
                        pass
        for k in range(job["nvar"] * 3):
            if k == 0:
                fl = [""] * (len(toks) + 1)          # no layout at all
            elif k == 1:
                fl = [" "] * (len(toks) + 1)
            else:
                fl = [rng.choice(fills) for _ in range(len(toks) + 1)]
            if comments and any(f.startswith("//") and not f.endswith("\n") for f in fl):
                continue
            w, starts, end = render(toks, fl)
            if w in seen:
                continue
            seen.add(w)
            none = {"kind": "none", "res": "[]", "full": "[]", "cls": "", "pos": -1}
            v = {"text": w, "tokstart": starts, "endpos": end, "junk": False, "wsonly": all(set(f) <= set(ws if ws is not None else " \t\n\r") for f in fl),
                 "lr": _run(real, lr, w, False) if lr else none, "glr": _run(real, glr, w, True),
                 "lrL": _run(real, lrL, w, False) if lrL else none, "glrL": _run(real, glrL, w, True) if glrL else none}
            variants.append(v)
            if len(variants) >= job["nvar"]:
                break
        if not comments:
            # not layout: a whitespace-like character outside ws before, between or after the tokens (ws parameter vs LAYOUT rule must agree on the error)
            for _ in range(2):
                fl = [rng.choice(["", " "]) for _ in range(len(toks) + 1)]
                k = rng.randrange(len(fl))
                fl[k] = rng.choice(["", " "]) + rng.choice(JUNK) + rng.choice(["", " ", "\n"])
                w, starts, end = render(toks, fl)
                none = {"kind": "none", "res": "[]", "full": "[]", "cls": "", "pos": -1}
                variants.append({"text": w, "tokstart": starts, "endpos": end, "wsonly": False, "junk": True,
                                 "lr": _run(real, lr, w, False) if lr else none, "glr": _run(real, glr, w, True),
                                 "lrL": _run(real, lrL, w, False) if lrL else none, "glrL": _run(real, glrL, w, True) if glrL else none})
        out.append({"name": "%s %s @ %s" % (gen.gname(g), ("[LAYOUT with comments, anchored line comment, ignore_case]" if job.get("anchored") else "[LAYOUT with comments]") if comments else ("[ws=%r vs LAYOUT rule]" % ws if ws is not None else "[ws vs LAYOUT rule]"), " ".join(toks)), "origin": job["origin"],
                    "pair": (not comments) and lrL is not None and glrL is not None and lr is not None, "comments": comments, "variants": variants})
    return out


def _jobs(tier, seed):
    p = PARAMS[tier]
    fam = [EXPR] + gen.family(3, 3, nts=("S", "A"), terms=gen.PLAIN_TERMS, limit=p["ngram"], rng_seed=1414)
    fam = [g for g in fam if not gen.cyclic(g["prods"], [t[0] for t in g["terms"]])]
    rng = random.Random(141)
    rng2 = random.Random(16000057 * (seed + 1))
    jobs = []
    for i, g in enumerate(fam):
        r = rng if i % 4 else rng2
        words = gen.directed_inputs(g, r, n_all=2, maxlen=6, n_sent=p["nseq"], n_mut=3)
        words = [w for w in words if w][: p["nseq"] + 6]
        jobs.append({"g": g, "seqs": words, "comments": i % 2 == 1, "origin": "det" if i % 4 else "rand", "seed": r.randrange(1 << 30), "nvar": p["nvar"]})
        if i % 6 == 1:
            jobs.append(dict(jobs[-1], anchored=True))
    for k, (ws, wsre, terms) in enumerate(CUSTOM_WS):
        tn = [t[0] for t in terms]
        for j, g in enumerate(gen.family(3, 3, nts=("S", "A"), terms=terms, limit=12, rng_seed=1500 + k)):
            if gen.cyclic(g["prods"], tn):
                continue
            words = [w for w in gen.directed_inputs(g, rng, n_all=2, maxlen=5, n_sent=6, n_mut=2) if w][:10]
            jobs.append({"g": g, "seqs": words, "comments": False, "ws": ws, "wsre": wsre, "origin": "det", "seed": 9000 + 100 * k + j, "nvar": p["nvar"]})
    return jobs


def judge(cases, tag_="layout"):
    paths = tlcrun.write_shards(cases, scratch() + "/" + tag_, max_bytes=2_500_000, min_shards=8)
    rs = tlcrun.run_shards("Layout", "Layout.cfg", paths, procs=4, workers=4)
    v = {x[1]: x for r in rs for x in r.verdicts}
    if len(v) != len(cases):
        raise tlcrun.MachineryFailure("Layout: %d cases, %d verdicts" % (len(cases), len(v)))
    out = [{"name": c["name"], "origin": c["origin"], "pair": c["pair"], "comments": c["comments"], "nvariants": len(c["variants"]),
            "lr_kinds": sorted({x["lr"]["kind"] + ":" + x["lr"]["cls"] for x in c["variants"]}), "texts": [x["text"] for x in c["variants"]][:4],
            "clauses": sorted(v[i][2])} for i, c in enumerate(cases)]
    return out, {"states": sum(r.distinct for r in rs), "generated": sum(r.generated for r in rs)}


def build(tier, seed):
    t = Timer()
    cases = pool.flatten(pool.run_jobs("stage_layout", "worker", _jobs(tier, seed), chunksize=2))
    log("layout corpus: %d token sequences, %d rendered variants in %.1fs" % (len(cases), sum(len(c["variants"]) for c in cases), t.s()))
    out, stats = judge(cases)
    stats["variants"] = sum(c["nvariants"] for c in out)
    log("layout corpus judged in %.1fs" % t.s())
    return {"cases": out, "stats": stats}


def get(tier, seed):
    return stage.cached("layout-" + tier, {"tier": tier, "seed": seed, "params": PARAMS[tier]}, lambda: build(tier, seed))
